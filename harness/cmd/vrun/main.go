// Command vrun runs one campaign part of the verification harness.
package main

import (
	"os"

	"github.com/relab/hotstuff/verif/vbase"
	"github.com/relab/hotstuff/verif/vk"
	_ "github.com/relab/hotstuff/verif/vlive"
	_ "github.com/relab/hotstuff/verif/vsim"
)

func main() {
	os.Exit(vk.Main(vbase.ParamsFromFlags()))
}
