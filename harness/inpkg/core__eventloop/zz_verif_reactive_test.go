package eventloop

import (
	"context"
	"fmt"

	"github.com/relab/hotstuff/verif/vbase"
)

// Reactive programs: handlers (ordinary, prioritized, and UnsafeRunInAddEvent ones, which run inside AddEvent)
// that themselves add and defer events while they handle one - also while the loop is releasing deferred events.
// The reference model follows the documented semantics: AddEvent runs the in-add handlers and then enqueues;
// a dispatched event is handled by the other handlers, prioritized first; afterwards the events deferred until
// its type (at that moment) are re-added in deferral order; what is deferred during that release waits for the
// next event of the type. Judged per handler (the sequence of events each handler saw), per Tick (something was
// pending or not) and on the overflow reports - independent of the order of handlers within one priority class.

type rAction struct {
	deferIt bool
	typ     int // type of the new event
	wait    int // type awaited (deferIt)
}

type rHandler struct {
	id, typ     int
	prio, inAdd bool
	active      bool
	react       []rAction
	unreg       func()
	slot        int
}

type rEvent struct{ typ, n int } // n = id*4 + depth

func verifReactive(p vbase.Params, r *vbase.Result) {
	r.Rule = "random programs over the exported event-loop API in which HANDLERS act: ordinary, prioritized and UnsafeRunInAddEvent handlers that add and defer further events while handling one (reaction depth <= 2), " +
		"so that AddEvent and DelayUntil also run while the loop releases deferred events; capacities 1..64; reference model of the documented semantics; judged: per handler the exact sequence of events it handled " +
		"(exactly once, add order, deferred events once, after an event of the awaited type, in deferral order), Tick truth value, overflow reports = oldest pending; independent of handler order within a priority class; " +
		"non-trivial: a reaction fired during a release of deferred events; distinct: program text"
	n := p.N(120000, 3000000)
	for i := 0; i < n; i++ {
		rng := vbase.NewRng(p.Seed, "C14.reactive", p.Shard, i)
		capacity := []int{1, 2, 3, 5, 64, 64, 64, 64}[rng.Intn(8)]
		lg := &vlog{}
		el := New(lg, uint(capacity))
		var handlers []*rHandler
		var prog []string
		realLog := map[int][]int{}
		refLog := map[int][]int{}
		realNext, refNext := 0, 0
		var pending []rEvent
		waiting := map[int][]rEvent{}
		var expectDropped []string
		releasing := false
		nontrivial := false
		bad := false
		fail := func(rule, msg string) {
			if bad {
				return
			}
			bad = true
			r.Violate("reactive-"+rule, fmt.Sprintf("capacity %d program %v: %s", capacity, prog, msg), map[string]any{"capacity": capacity, "program": prog, "case": i, "shard": p.Shard})
		}
		// ---- reference
		slots := map[int][]*rHandler{} // per type, nil = free slot
		classOf := func(typ int, inAdd bool) []*rHandler {
			var pr, or []*rHandler
			for _, h := range slots[typ] {
				if h == nil || !h.active || h.inAdd != inAdd {
					continue
				}
				if h.prio {
					pr = append(pr, h)
				} else {
					or = append(or, h)
				}
			}
			return append(pr, or...)
		}
		push := func(e rEvent) {
			if len(pending) == capacity {
				expectDropped = append(expectDropped, fmt.Sprintf("%v", mkEvent(pending[0].typ, pending[0].n)))
				pending = pending[1:]
			}
			pending = append(pending, e)
		}
		var refAdd func(e rEvent)
		refHandle := func(h *rHandler, e rEvent) {
			refLog[h.id] = append(refLog[h.id], e.n)
			if e.n%4 >= 2 {
				return
			}
			for _, a := range h.react {
				refNext++
				ne := rEvent{a.typ, refNext*4 + e.n%4 + 1}
				if releasing {
					nontrivial = true
				}
				if a.deferIt {
					waiting[a.wait] = append(waiting[a.wait], ne)
				} else {
					refAdd(ne)
				}
			}
		}
		refAdd = func(e rEvent) {
			for _, h := range classOf(e.typ, true) {
				refHandle(h, e)
			}
			push(e)
		}
		refTick := func() bool {
			if len(pending) == 0 {
				return false
			}
			e := pending[0]
			pending = pending[1:]
			for _, h := range classOf(e.typ, false) {
				refHandle(h, e)
			}
			list := waiting[e.typ]
			delete(waiting, e.typ)
			releasing = true
			for _, d := range list {
				refAdd(d)
			}
			releasing = false
			return true
		}
		// ---- real
		register := func(typ int, prio, inAdd bool, react []rAction) {
			// at most one reacting handler per (type, in-add, priority class): effects then do not depend on the order within a class
			for _, h := range handlers {
				if h.active && h.typ == typ && h.inAdd == inAdd && h.prio == prio && len(h.react) > 0 {
					react = nil
				}
			}
			h := &rHandler{id: len(handlers), typ: typ, prio: prio, inAdd: inAdd, active: true, react: react}
			cb := func(n int) {
				realLog[h.id] = append(realLog[h.id], n)
				if n%4 >= 2 {
					return
				}
				for _, a := range h.react {
					realNext++
					m := realNext*4 + n%4 + 1
					if a.deferIt {
						delayUntil(el, a.wait, mkEvent(a.typ, m))
					} else {
						el.AddEvent(mkEvent(a.typ, m))
					}
				}
			}
			var opts []HandlerOption
			if prio {
				opts = append(opts, Prioritize())
			}
			if inAdd {
				opts = append(opts, UnsafeRunInAddEvent())
			}
			switch typ {
			case 0:
				h.unreg = Register(el, func(e evA) { cb(e.N) }, opts...)
			case 1:
				h.unreg = Register(el, func(e evB) { cb(e.N) }, opts...)
			default:
				h.unreg = Register(el, func(e evC) { cb(e.N) }, opts...)
			}
			handlers = append(handlers, h)
			// slot model: first free slot, else append
			placed := false
			for k, s := range slots[typ] {
				if s == nil {
					slots[typ][k] = h
					h.slot = k
					placed = true
					break
				}
			}
			if !placed {
				h.slot = len(slots[typ])
				slots[typ] = append(slots[typ], h)
			}
			prog = append(prog, fmt.Sprintf("reg(h%d,%c,prio=%v,inadd=%v,react=%v)", h.id, "ABC"[typ], prio, inAdd, react))
		}
		genReact := func() []rAction {
			var out []rAction
			for k := rng.Intn(3); k > 0; k-- {
				out = append(out, rAction{deferIt: rng.Chance(2, 3), typ: rng.Intn(3), wait: rng.Intn(3)})
			}
			return out
		}
		checkDropped := func(where string) {
			got := lg.takeDropped()
			want := expectDropped
			expectDropped = nil
			if fmt.Sprint(got) != fmt.Sprint(want) && (len(got) > 0 || len(want) > 0) {
				fail("dropped-report", fmt.Sprintf("%s: reported as dropped %v, events actually dropped (oldest pending) %v", where, got, want))
			}
		}
		tick := func() {
			ok := el.Tick(context.Background())
			want := refTick()
			prog = append(prog, "tick")
			if ok != want {
				fail("tick", fmt.Sprintf("Tick()=%v but the reference has pending=%v", ok, want))
			}
		}
		steps := rng.Range(6, 36)
		register(rng.Intn(3), rng.Bool(), rng.Chance(1, 3), genReact())
		for s := 0; s < steps && !bad; s++ {
			switch rng.Weighted([]int{4, 2, 8, 4, 9}) {
			case 0:
				register(rng.Intn(3), rng.Chance(1, 3), rng.Chance(1, 3), genReact())
			case 1:
				h := handlers[rng.Intn(len(handlers))]
				h.unreg()
				if h.active {
					h.active = false
					slots[h.typ][h.slot] = nil
				}
				prog = append(prog, fmt.Sprintf("unreg(h%d)", h.id))
			case 2:
				realNext++
				refNext++
				e := rEvent{rng.Intn(3), realNext * 4}
				prog = append(prog, "add("+evName(mkEvent(e.typ, e.n))+")")
				el.AddEvent(mkEvent(e.typ, e.n))
				refAdd(e)
			case 3:
				realNext++
				refNext++
				e := rEvent{rng.Intn(3), realNext * 4}
				wt := rng.Intn(3)
				prog = append(prog, fmt.Sprintf("defer(%s until %c)", evName(mkEvent(e.typ, e.n)), "ABC"[wt]))
				delayUntil(el, wt, mkEvent(e.typ, e.n))
				waiting[wt] = append(waiting[wt], e)
			case 4:
				tick()
			}
			if realNext != refNext {
				fail("reaction-count", fmt.Sprintf("the handlers created %d events so far, the reference %d", realNext, refNext))
			}
			checkDropped("step")
		}
		for k := 0; k < 400 && !bad && len(pending) > 0; k++ {
			tick()
			checkDropped("drain")
		}
		if !bad && el.Tick(context.Background()) {
			fail("extra-event", "event loop still has events after the reference queue is empty")
		}
		if !bad {
			for _, h := range handlers {
				if fmt.Sprint(realLog[h.id]) != fmt.Sprint(refLog[h.id]) {
					fail("handler-history", fmt.Sprintf("handler h%d (%c prio=%v inadd=%v) handled events %v (n = id*4+depth), reference: %v", h.id, "ABC"[h.typ], h.prio, h.inAdd, realLog[h.id], refLog[h.id]))
					break
				}
			}
		}
		r.Eval(nontrivial, fmt.Sprint(capacity, prog))
		var cnt int64
		for _, l := range realLog {
			cnt += int64(len(l))
		}
		r.Obs("handled_events", cnt)
		if nontrivial {
			r.Obs("programs_with_reactions_during_release", 1)
			if len(prog) > 10 && r.WantSample() {
				r.Sample(map[string]any{"capacity": capacity, "program": prog})
			}
		}
		if r.NViolations() > 5 {
			return
		}
	}
}
