package eventloop

// In-package overlay (never written to /repo): queue model check, event-loop
// dispatch model, concurrent producers under the race detector, porcupine.

import (
	"context"
	"fmt"
	"reflect"
	"sort"
	"strings"
	"sync"
	"sync/atomic"
	"testing"
	"time"

	"github.com/anishathalye/porcupine"
	"github.com/relab/hotstuff"
	"github.com/relab/hotstuff/verif/vbase"
)

func TestVerif(t *testing.T) {
	p := vbase.ParamsFromEnv()
	if p.Part == "" {
		t.Skip("VERIF_PART not set")
	}
	r := vbase.NewResult(p)
	switch p.Part {
	case "C14.queue":
		verifQueue(p, r)
	case "C14.loop":
		verifLoop(p, r)
	case "C14.reactive":
		verifReactive(p, r)
	case "C14.concurrent":
		verifConcurrent(p, r)
	default:
		t.Fatalf("unknown part %s", p.Part)
	}
	if err := r.Write(p.Out); err != nil {
		t.Fatal(err)
	}
}

// ---------------------------------------------------------------- logger

type vlog struct {
	mu      sync.Mutex
	dropped []string
}

func (l *vlog) rec(s string) {
	const pfx = "event queue is full, dropped event: "
	if strings.HasPrefix(s, pfx) {
		l.mu.Lock()
		l.dropped = append(l.dropped, strings.TrimPrefix(s, pfx))
		l.mu.Unlock()
	}
}
func (l *vlog) takeDropped() []string {
	l.mu.Lock()
	defer l.mu.Unlock()
	d := l.dropped
	l.dropped = nil
	return d
}
func (l *vlog) DPanic(a ...any)           {}
func (l *vlog) DPanicf(string, ...any)    {}
func (l *vlog) Debug(a ...any)            {}
func (l *vlog) Debugf(string, ...any)     {}
func (l *vlog) Error(a ...any)            {}
func (l *vlog) Errorf(string, ...any)     {}
func (l *vlog) Fatal(a ...any)            { panic(fmt.Sprint(a...)) }
func (l *vlog) Fatalf(f string, a ...any) { panic(fmt.Sprintf(f, a...)) }
func (l *vlog) Info(a ...any)             {}
func (l *vlog) Infof(string, ...any)      {}
func (l *vlog) Panic(a ...any)            { panic(fmt.Sprint(a...)) }
func (l *vlog) Panicf(f string, a ...any) { panic(fmt.Sprintf(f, a...)) }
func (l *vlog) Warn(a ...any)             { l.rec(fmt.Sprint(a...)) }
func (l *vlog) Warnf(f string, a ...any)  { l.rec(fmt.Sprintf(f, a...)) }

// ---------------------------------------------------------------- queue

// refQueue: bounded FIFO that drops the oldest entry when full.
type refQueue struct {
	cap int
	q   []int
}

func (r *refQueue) push(v int) (dropped int, did bool) {
	if len(r.q) == r.cap {
		dropped, did = r.q[0], true
		r.q = r.q[1:]
	}
	r.q = append(r.q, v)
	return
}
func (r *refQueue) pop() (int, bool) {
	if len(r.q) == 0 {
		return 0, false
	}
	v := r.q[0]
	r.q = r.q[1:]
	return v, true
}

func runQueueSeq(r *vbase.Result, capacity int, seq []byte) bool {
	q := newQueue(uint(capacity))
	ref := &refQueue{cap: capacity}
	next := 1
	wrapped, overflow := false, false
	fail := func(rule, msg string, step int) bool {
		r.Violate("queue-"+rule, fmt.Sprintf("capacity %d, ops %s, step %d: %s", capacity, string(seq), step, msg),
			map[string]any{"capacity": capacity, "ops": string(seq)})
		return false
	}
	for i, op := range seq {
		switch op {
		case 'P':
			got := q.push(next)
			want, did := ref.push(next)
			if did {
				overflow = true
			}
			if q.tail < q.head {
				wrapped = true
			}
			if did != (got != nil) || (did && got.(int) != want) {
				wd := "nothing"
				if did {
					wd = fmt.Sprint(want)
				}
				return fail("dropped-report", fmt.Sprintf("push(%d) reported dropped=%v, the entry actually dropped (oldest) is %s", next, got, wd), i)
			}
			next++
		case 'O':
			got, ok := q.pop()
			want, wok := ref.pop()
			if ok != wok || (ok && got.(int) != want) {
				return fail("pop", fmt.Sprintf("pop()=(%v,%v), reference (%d,%v)", got, ok, want, wok), i)
			}
		case 'L':
			if q.len() != len(ref.q) {
				return fail("len", fmt.Sprintf("len()=%d, reference %d", q.len(), len(ref.q)), i)
			}
		}
	}
	// drain and compare the remaining order
	for {
		got, ok := q.pop()
		want, wok := ref.pop()
		if ok != wok || (ok && got.(int) != want) {
			return fail("drain", fmt.Sprintf("final drain pop()=(%v,%v), reference (%d,%v)", got, ok, want, wok), len(seq))
		}
		if !ok {
			break
		}
	}
	r.Eval(wrapped || overflow, fmt.Sprintf("%d/%s", capacity, seq))
	return true
}

func verifQueue(p vbase.Params, r *vbase.Result) {
	maxLen := 10
	if p.Thorough() {
		maxLen = 13
	}
	r.Rule = fmt.Sprintf("queue (unexported) vs reference bounded FIFO with drop-oldest: ALL sequences over {push,pop,len} up to length %d for capacities 1..4, random sequences to length 200 for capacities 1..8; "+
		"compared: value reported as dropped by push, pop results, len, final drain order; non-trivial: wrap-around or overflow; distinct: (capacity, sequence)", maxLen)
	r.Exhaustive = true
	idx := 0
	for capacity := 1; capacity <= 4; capacity++ {
		for l := 1; l <= maxLen; l++ {
			total := 1
			for i := 0; i < l; i++ {
				total *= 3
			}
			seq := make([]byte, l)
			for code := 0; code < total; code++ {
				idx++
				if !p.Mine(idx) {
					continue
				}
				c := code
				for i := 0; i < l; i++ {
					seq[i] = "POL"[c%3]
					c /= 3
				}
				if !runQueueSeq(r, capacity, seq) && r.NViolations() > 20 {
					return
				}
			}
		}
	}
	n := p.N(20000, 1000000)
	for i := 0; i < n; i++ {
		rng := vbase.NewRng(p.Seed, "C14.queue", p.Shard, i)
		capacity := rng.Range(1, 8)
		l := rng.Range(11, 200)
		seq := make([]byte, l)
		w := []int{5, 4, 1}
		if rng.Bool() {
			w = []int{6, 2, 1}
		}
		for k := range seq {
			seq[k] = "POL"[rng.Weighted(w)]
		}
		runQueueSeq(r, capacity, seq)
		if i < 2 {
			r.Sample(map[string]any{"capacity": capacity, "ops": string(seq[:min(len(seq), 60)]), "legend": "P push, O pop, L len"})
		}
	}
}

// ---------------------------------------------------------------- event loop, sequential model

type evA struct{ N int }
type evB struct{ N int }
type evC struct{ N int }

func evName(e any) string {
	switch x := e.(type) {
	case evA:
		return fmt.Sprintf("A%d", x.N)
	case evB:
		return fmt.Sprintf("B%d", x.N)
	case evC:
		return fmt.Sprintf("C%d", x.N)
	}
	return fmt.Sprint(e)
}

type mHandler struct {
	id     int
	typ    int // 0 A, 1 B, 2 C
	prio   bool
	active bool
	unreg  func()
}

type mEvent struct {
	typ int
	n   int
}

type handled struct {
	h  int
	ev string
}

func mkEvent(typ, n int) any {
	switch typ {
	case 0:
		return evA{n}
	case 1:
		return evB{n}
	}
	return evC{n}
}

func delayUntil(el *EventLoop, waitTyp int, ev any) {
	switch waitTyp {
	case 0:
		DelayUntil[evA](el, ev)
	case 1:
		DelayUntil[evB](el, ev)
	default:
		DelayUntil[evC](el, ev)
	}
}

// verifLoop runs random operation programs against the real event loop and a reference dispatch model.
func verifLoop(p vbase.Params, r *vbase.Result) {
	r.Rule = "random programs over the exported event-loop API (Register with/without Prioritize for 3 event types, unregister closures incl. repeated calls after the slot was reused, AddEvent, DelayUntil, Tick, " +
		"TimeoutContext/ViewContext cancel functions incl. cancel after the context was already ended by an event), queue capacities from tiny (overflow) to large; reference dispatch model: each popped event is " +
		"handled exactly once by every handler registered at that time, prioritized before ordinary, in add order; deferred events are re-added once, after an event of the awaited type was handled, in deferral order; " +
		"on overflow exactly the oldest pending events are dropped and exactly those are reported; non-trivial: program with an unregister, a deferral or an overflow; distinct: program text"
	n := p.N(200000, 4000000)
	for i := 0; i < n; i++ {
		rng := vbase.NewRng(p.Seed, "C14.loop", p.Shard, i)
		capacity := []int{1, 2, 3, 5, 64, 64, 64}[rng.Intn(7)]
		lg := &vlog{}
		el := New(lg, uint(capacity))
		var handlers []*mHandler
		var log []handled
		var prog []string
		pending := []mEvent{}         // reference queue
		waiting := map[int][]mEvent{} // reference deferred, by awaited type
		var expectDropped []string
		nextEv := 1
		nontrivial := false
		bad := false
		fail := func(rule, msg string) {
			if bad {
				return
			}
			bad = true
			r.Violate("loop-"+rule, fmt.Sprintf("capacity %d program %v: %s", capacity, prog, msg), map[string]any{"capacity": capacity, "program": prog, "case": i, "shard": p.Shard})
		}
		refPush := func(e mEvent) {
			if len(pending) == capacity {
				expectDropped = append(expectDropped, fmt.Sprintf("%v", mkEvent(pending[0].typ, pending[0].n)))
				pending = pending[1:]
				nontrivial = true
			}
			pending = append(pending, e)
		}
		register := func(typ int, prio bool) {
			h := &mHandler{id: len(handlers), typ: typ, prio: prio, active: true}
			var opts []HandlerOption
			if prio {
				opts = append(opts, Prioritize())
			}
			switch typ {
			case 0:
				h.unreg = Register(el, func(e evA) { log = append(log, handled{h.id, evName(e)}) }, opts...)
			case 1:
				h.unreg = Register(el, func(e evB) { log = append(log, handled{h.id, evName(e)}) }, opts...)
			default:
				h.unreg = Register(el, func(e evC) { log = append(log, handled{h.id, evName(e)}) }, opts...)
			}
			handlers = append(handlers, h)
			prog = append(prog, fmt.Sprintf("reg(h%d,%c,prio=%v)", h.id, "ABC"[typ], prio))
		}
		tick := func() {
			before := len(log)
			ok := el.Tick(context.Background())
			if ok != (len(pending) > 0) {
				fail("tick", fmt.Sprintf("Tick()=%v but reference has %d pending events", ok, len(pending)))
				return
			}
			if !ok {
				return
			}
			e := pending[0]
			pending = pending[1:]
			name := evName(mkEvent(e.typ, e.n))
			got := log[before:]
			// expected: all active handlers of that type, prioritized ones first
			var wantP, wantO []int
			for _, h := range handlers {
				if h.active && h.typ == e.typ {
					if h.prio {
						wantP = append(wantP, h.id)
					} else {
						wantO = append(wantO, h.id)
					}
				}
			}
			var gotIDs []int
			for _, g := range got {
				if g.ev != name {
					fail("wrong-event", fmt.Sprintf("Tick handled %s, reference head of queue is %s", g.ev, name))
					return
				}
				gotIDs = append(gotIDs, g.h)
			}
			if len(gotIDs) != len(wantP)+len(wantO) {
				fail("handler-set", fmt.Sprintf("event %s was handled by handlers %v, registered handlers are prioritized %v + ordinary %v", name, gotIDs, wantP, wantO))
				return
			}
			gp := append([]int(nil), gotIDs[:len(wantP)]...)
			gobs := append([]int(nil), gotIDs[len(wantP):]...)
			sort.Ints(gp)
			sort.Ints(gobs)
			if fmt.Sprint(gp) != fmt.Sprint(wantP) || fmt.Sprint(gobs) != fmt.Sprint(wantO) {
				fail("priority-order", fmt.Sprintf("event %s: handled in order %v, expected prioritized %v before ordinary %v, each exactly once", name, gotIDs, wantP, wantO))
				return
			}
			// deferred events waiting for this type are re-added in deferral order
			for _, d := range waiting[e.typ] {
				refPush(d)
			}
			delete(waiting, e.typ)
			prog = append(prog, "tick")
		}
		steps := rng.Range(5, 40)
		register(rng.Intn(3), rng.Bool())
		type openCtx struct {
			ctx    context.Context
			cancel context.CancelFunc
		}
		var ctxs []openCtx
		for s := 0; s < steps && !bad; s++ {
			switch rng.Weighted([]int{3, 3, 8, 3, 8, 2}) {
			case 0:
				register(rng.Intn(3), rng.Chance(1, 3))
			case 1: // unregister (possibly again)
				h := handlers[rng.Intn(len(handlers))]
				h.unreg()
				h.active = false
				nontrivial = true
				prog = append(prog, fmt.Sprintf("unreg(h%d)", h.id))
			case 2:
				e := mEvent{rng.Intn(3), nextEv}
				nextEv++
				el.AddEvent(mkEvent(e.typ, e.n))
				refPush(e)
				prog = append(prog, "add("+evName(mkEvent(e.typ, e.n))+")")
			case 3:
				e := mEvent{rng.Intn(3), nextEv}
				nextEv++
				wt := rng.Intn(3)
				delayUntil(el, wt, mkEvent(e.typ, e.n))
				waiting[wt] = append(waiting[wt], e)
				nontrivial = true
				prog = append(prog, fmt.Sprintf("defer(%s until %c)", evName(mkEvent(e.typ, e.n)), "ABC"[wt]))
			case 4:
				tick()
			case 5: // context helpers: they register and unregister internal handlers
				if len(ctxs) > 0 && rng.Bool() {
					k := rng.Intn(len(ctxs))
					ctxs[k].cancel()
					if rng.Chance(1, 3) {
						ctxs[k].cancel() // cancel functions are idempotent by contract of context.CancelFunc
					}
					prog = append(prog, "ctxcancel")
					ctxs = append(ctxs[:k], ctxs[k+1:]...)
				} else {
					ctx, cancel := el.TimeoutContext()
					ctxs = append(ctxs, openCtx{ctx, cancel})
					prog = append(prog, "timeoutctx")
					if rng.Chance(1, 2) {
						// a timeout event ends the context from inside the loop (handlers run in AddEvent)
						el.AddEvent(hotstuff.TimeoutEvent{View: 1})
						refPush(mEvent{typ: 9, n: 0})
						prog = append(prog, "add(TimeoutEvent)")
						if ctx.Err() == nil {
							fail("timeout-context", "TimeoutContext not cancelled by a TimeoutEvent")
						}
					}
				}
				nontrivial = true
			}
			// overflow reports so far must be exactly the reference's drops
			if got := lg.takeDropped(); len(got) > 0 || len(expectDropped) > 0 {
				var want []string
				want, expectDropped = expectDropped, nil
				// the TimeoutEvent prints as a struct; compare by count and, for our events, by name
				okc := len(got) == len(want)
				for k := 0; okc && k < len(got); k++ {
					if want[k] != got[k] && want[k] != "{0}" {
						okc = false
					}
				}
				if !okc {
					fail("dropped-report", fmt.Sprintf("overflow: reported as dropped %v, events actually dropped (oldest pending) %v", got, want))
				}
			}
		}
		// drain
		for k := 0; k < 200 && !bad && len(pending) > 0; k++ {
			// events of the pseudo type 9 (TimeoutEvent) have no model handlers
			tick()
			if got := lg.takeDropped(); len(got) != len(expectDropped) {
				fail("dropped-report", fmt.Sprintf("overflow during drain: reported %v, expected %v", got, expectDropped))
			}
			expectDropped = nil
		}
		if !bad && el.Tick(context.Background()) {
			fail("extra-event", "event loop still has events after the reference queue is empty")
		}
		for _, c := range ctxs {
			c.cancel()
		}
		r.Eval(nontrivial, fmt.Sprint(capacity, prog))
		r.Obs("handled_events", int64(len(log)))
		if nontrivial && len(prog) > 12 && r.WantSample() {
			r.Sample(map[string]any{"capacity": capacity, "program": prog})
		}
	}
}

func evTypeOf(e any) reflect.Type { return reflect.TypeOf(e) }

// ---------------------------------------------------------------- concurrent producers

type evN struct {
	P int // producer
	K int // per-producer sequence number
}

type qIn struct {
	deq bool
	v   int
}

func verifConcurrent(p vbase.Params, r *vbase.Result) {
	r.Rule = "P in {2,4,16} goroutines AddEvent uniquely numbered events while Run consumes (every second run with a 1 ms ticker sharing the queue), below capacity and with deliberate overflow, under the race detector: handled multiset = added multiset " +
		"(below capacity), per-producer order, real-time order (a returned before b was called => a handled first), overflow: reported-dropped set = never-handled set and every dropped event is older than " +
		"everything handled after it; short histories additionally checked with porcupine against a FIFO model; non-trivial: >=2 producers; distinct: observed handle order"
	reps := p.N(800, 20000)
	for i := 0; i < reps; i++ {
		rng := vbase.NewRng(p.Seed, "C14.conc", p.Shard, i)
		P := []int{2, 4, 16}[rng.Intn(3)]
		per := rng.Range(3, 60)
		short := rng.Chance(1, 2)
		if short {
			P = []int{2, 3}[rng.Intn(2)]
			per = rng.Range(2, 4) // <= 12 concurrent enqueues keeps the linearizability search small
		}
		overflow := rng.Chance(1, 3)
		capacity := P*per + 8
		if overflow {
			capacity = rng.Range(1, max(2, P*per/3))
		}
		lg := &vlog{}
		el := New(lg, uint(capacity))
		var clock atomic.Int64
		type stamp struct{ call, ret int64 }
		stamps := make([][]stamp, P)
		var hmu sync.Mutex
		var order []evN
		var orderT []int64
		Register(el, func(e evN) {
			hmu.Lock()
			order = append(order, e)
			orderT = append(orderT, clock.Add(1))
			hmu.Unlock()
		})
		tickSeen := atomic.Int64{}
		Register(el, func(_ evC) { tickSeen.Add(1) })
		ctx, cancel := context.WithCancel(context.Background())
		done := make(chan struct{})
		start := make(chan struct{})
		var consumerGate chan struct{}
		if overflow {
			consumerGate = make(chan struct{})
		}
		go func() {
			if consumerGate != nil {
				<-consumerGate // let the queue overflow before consuming
			}
			el.Run(ctx)
			close(done)
		}()
		// a ticker shares the queue with the producers: its events take slots too, so with a ticker "below capacity" is only
		// nominal (a consumer that is not scheduled for a few milliseconds lets tick events pile up). Every second
		// non-overflow run has no ticker and keeps the strict claim; the others are judged by the overflow rules if anything
		// was reported dropped.
		withTicker := !overflow && i%2 == 0
		if withTicker {
			el.AddTicker(time.Millisecond, func(time.Time) any { return evC{1} })
		}
		var wg sync.WaitGroup
		for pr := 0; pr < P; pr++ {
			stamps[pr] = make([]stamp, per)
			wg.Add(1)
			go func(pr int) {
				defer wg.Done()
				<-start
				for k := 0; k < per; k++ {
					c := clock.Add(1)
					el.AddEvent(evN{pr, k})
					stamps[pr][k] = stamp{c, clock.Add(1)}
				}
			}(pr)
		}
		close(start)
		wg.Wait()
		if consumerGate != nil {
			close(consumerGate)
		}
		// quiescence: everything added has either been handled or reported dropped (logical condition), with a watchdog
		// tick events can be dropped too; the accounting below is about the producers' events
		isProducerEvent := map[string]bool{}
		for pr := 0; pr < P; pr++ {
			for k := 0; k < per; k++ {
				isProducerEvent[fmt.Sprint(evN{pr, k})] = true
			}
		}
		total := P * per
		deadline := time.Now().Add(120 * time.Second)
		for {
			hmu.Lock()
			nh := len(order)
			hmu.Unlock()
			lg.mu.Lock()
			nd := 0
			for _, d := range lg.dropped {
				if isProducerEvent[d] {
					nd++
				}
			}
			lg.mu.Unlock()
			if nh+nd >= total || time.Now().After(deadline) {
				break
			}
			time.Sleep(200 * time.Microsecond)
		}
		cancel()
		<-done
		hmu.Lock()
		got := append([]evN(nil), order...)
		gotT := append([]int64(nil), orderT...)
		hmu.Unlock()
		droppedAll := lg.takeDropped()
		var dropped []string
		for _, d := range droppedAll {
			if isProducerEvent[d] {
				dropped = append(dropped, d)
			}
		}
		rep := map[string]any{"case": i, "shard": p.Shard, "producers": P, "per": per, "capacity": capacity, "overflow": overflow}
		sigOrder := fmt.Sprint(got)
		r.Eval(P >= 2, sigOrder)
		r.Obs("events_added", int64(total))
		r.Obs("events_handled", int64(len(got)))
		r.Obs("events_reported_dropped", int64(len(dropped)))
		// each exactly once
		seen := map[evN]int{}
		for _, e := range got {
			seen[e]++
		}
		dup := false
		for e, c := range seen {
			if c > 1 {
				r.Violate("conc-duplicate", fmt.Sprintf("event %v handled %d times", e, c), rep)
				dup = true
			}
		}
		if dup {
			continue
		}
		if len(got)+len(dropped) < total {
			r.Inconclusive(fmt.Sprintf("watchdog: %d of %d events neither handled nor reported dropped after 20s", total-len(got)-len(dropped), total))
			continue
		}
		if withTicker && len(dropped) > 0 {
			r.Obs("runs_with_ticker_in_which_tick_events_filled_the_queue", 1)
			overflow = true
		}
		if !overflow {
			if len(got) != total {
				r.Violate("conc-lost", fmt.Sprintf("%d producers x %d events below capacity %d: %d handled, %d reported dropped", P, per, capacity, len(got), len(dropped)), rep)
				continue
			}
		} else {
			// reported-dropped set must equal never-handled set
			never := map[string]bool{}
			for pr := 0; pr < P; pr++ {
				for k := 0; k < per; k++ {
					if seen[evN{pr, k}] == 0 {
						never[fmt.Sprint(evN{pr, k})] = true
					}
				}
			}
			repd := map[string]bool{}
			for _, d := range dropped {
				repd[d] = true
			}
			if len(repd) != len(never) {
				r.Violate("conc-dropped-report", fmt.Sprintf("overflow: %d events never handled but %d distinct events reported dropped (reported %d lines)", len(never), len(repd), len(dropped)), rep)
				continue
			}
			mism := false
			for d := range never {
				if !repd[d] {
					mism = true
				}
			}
			if mism {
				r.Violate("conc-dropped-report", "overflow: the set reported as dropped differs from the set never handled", rep)
				continue
			}
		}
		// per-producer order
		last := map[int]int{}
		for pr := 0; pr < P; pr++ {
			last[pr] = -1
		}
		okOrder := true
		for _, e := range got {
			if e.K <= last[e.P] {
				r.Violate("conc-producer-order", fmt.Sprintf("producer %d: event %d handled after event %d", e.P, e.K, last[e.P]), rep)
				okOrder = false
				break
			}
			last[e.P] = e.K
		}
		if !okOrder {
			continue
		}
		// real-time order: if add(a) returned before add(b) was called, a is handled before b (when both are handled)
		pos := map[evN]int{}
		for k, e := range got {
			pos[e] = k
		}
		// O(n log n): sort handled events by call time and keep the max position among those whose return < call
		type item struct {
			e         evN
			call, ret int64
		}
		var items []item
		for _, e := range got {
			items = append(items, item{e, stamps[e.P][e.K].call, stamps[e.P][e.K].ret})
		}
		byRet := append([]item(nil), items...)
		sort.Slice(byRet, func(a, b int) bool { return byRet[a].ret < byRet[b].ret })
		sort.Slice(items, func(a, b int) bool { return items[a].call < items[b].call })
		j, maxPos := 0, -1
		var maxEv evN
		rt := true
		for _, it := range items {
			for j < len(byRet) && byRet[j].ret < it.call {
				if pos[byRet[j].e] > maxPos {
					maxPos, maxEv = pos[byRet[j].e], byRet[j].e
				}
				j++
			}
			if maxPos > pos[it.e] {
				r.Violate("conc-realtime-order", fmt.Sprintf("AddEvent(%v) returned before AddEvent(%v) was called, but %v was handled first", maxEv, it.e, it.e), rep)
				rt = false
				break
			}
		}
		if !rt {
			continue
		}
		// porcupine on short, non-overflow histories
		if short && !overflow {
			var ops []porcupine.Operation
			for pr := 0; pr < P; pr++ {
				for k := 0; k < per; k++ {
					ops = append(ops, porcupine.Operation{ClientId: pr, Input: qIn{false, pr*1000 + k}, Call: stamps[pr][k].call, Output: 0, Return: stamps[pr][k].ret})
				}
			}
			for k, e := range got {
				ops = append(ops, porcupine.Operation{ClientId: P, Input: qIn{true, 0}, Call: gotT[k]*2 + 1<<40, Output: e.P*1000 + e.K, Return: gotT[k]*2 + 1 + 1<<40})
			}
			// dequeues happen at the consumer; their times are taken from the same clock: place each at its own stamp
			for k := range got {
				ops[len(ops)-len(got)+k].Call = gotT[k]
				ops[len(ops)-len(got)+k].Return = gotT[k]
			}
			model := porcupine.Model{
				Init: func() any { return []int(nil) },
				Step: func(st, in, out any) (bool, any) {
					q := st.([]int)
					x := in.(qIn)
					if !x.deq {
						return true, append(append([]int(nil), q...), x.v)
					}
					if len(q) == 0 || q[0] != out.(int) {
						return false, q
					}
					return true, append([]int(nil), q[1:]...)
				},
				Equal: func(a, b any) bool { return fmt.Sprint(a) == fmt.Sprint(b) },
			}
			res := porcupine.CheckOperationsTimeout(model, ops, 10*time.Second)
			r.Obs("porcupine_histories", 1)
			switch res {
			case porcupine.Illegal:
				r.Violate("conc-not-linearizable", fmt.Sprintf("history of %d adds / %d handles is not linearizable w.r.t. a FIFO queue", P*per, len(got)), rep)
			case porcupine.Unknown:
				// this history was still decided by the direct exactly-once / order oracles above
				r.Obs("porcupine_timeouts", 1)
				r.Note("porcupine timed out on a short history (sub-check skipped for it)")
			}
		}
		if r.WantSample() {
			r.Sample(map[string]any{"producers": P, "events_per_producer": per, "capacity": capacity, "overflow": overflow, "handled": len(got), "reported_dropped": len(dropped), "first_handled": fmt.Sprint(got[:min(len(got), 12)])})
		}
	}
}
