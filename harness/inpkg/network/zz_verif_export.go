package network

import "github.com/relab/hotstuff/internal/proto/hotstuffpb"

// VerifRequestBlockQF exposes the quorum function of the block-fetch call to the verification harness (overlay only;
// this file is not part of the repository): the simulated network passes the replies of its replicas through the real
// function, in arrival order, as gorums does.
func VerifRequestBlockQF(in *hotstuffpb.BlockHash, replies map[uint32]*hotstuffpb.Block) (*hotstuffpb.Block, bool) {
	return qspec{}.RequestBlockQF(in, replies)
}
