package network

// In-package overlay (never written to /repo): exercises the unexported quorum
// function that decides which fetched block is accepted for a requested hash.

import (
	"fmt"
	"testing"
	"time"

	"github.com/relab/hotstuff"
	"github.com/relab/hotstuff/internal/proto/clientpb"
	"github.com/relab/hotstuff/internal/proto/hotstuffpb"
	"github.com/relab/hotstuff/verif/vbase"
)

func TestVerif(t *testing.T) {
	p := vbase.ParamsFromEnv()
	if p.Part == "" {
		t.Skip("VERIF_PART not set")
	}
	r := vbase.NewResult(p)
	switch p.Part {
	case "C12.fetch":
		verifFetch(p, r)
	default:
		t.Fatalf("unknown part %s", p.Part)
	}
	if err := r.Write(p.Out); err != nil {
		t.Fatal(err)
	}
}

func mkBlock(rng *vbase.Rng, parent hotstuff.Hash, view hotstuff.View) *hotstuff.Block {
	var batch *clientpb.Batch
	if rng.Bool() {
		batch = &clientpb.Batch{Commands: []*clientpb.Command{{ClientID: uint32(rng.Intn(4)), SequenceNumber: uint64(rng.Intn(9)), Data: rng.Bytes(rng.Intn(20))}}}
	}
	b := hotstuff.NewBlock(parent, hotstuff.NewQuorumCert(nil, view-1, parent), batch, view, hotstuff.ID(rng.Range(1, 4)))
	b.SetTimestamp(time.Unix(int64(rng.Intn(1<<30)), int64(rng.Intn(1e9))))
	return b
}

// verifFetch: RequestBlockQF must return a block iff one reply hashes to the request, and that one.
func verifFetch(p vbase.Params, r *vbase.Result) {
	r.Rule = "qspec.RequestBlockQF with reply maps containing the right block, wrong blocks, single-field mutations of the right block, nil entries, truncated request hashes: " +
		"returns (b,true) iff some reply hashes to the requested hash and then b hashes to it; non-trivial: map with >=1 wrong or mutated reply; distinct: reply-shape vector"
	n := p.N(200000, 8000000)
	q := qspec{}
	for i := 0; i < n; i++ {
		rng := vbase.NewRng(p.Seed, "C12.fetch", p.Shard, i)
		want := mkBlock(rng, hotstuff.GetGenesis().Hash(), hotstuff.View(rng.Range(1, 9)))
		h := want.Hash()
		replies := map[uint32]*hotstuffpb.Block{}
		shape := ""
		haveRight := false
		nrep := rng.Range(0, 5)
		for k := 0; k < nrep; k++ {
			switch rng.Intn(6) {
			case 0:
				replies[uint32(k+1)] = hotstuffpb.BlockToProto(want)
				haveRight = true
				shape += "R"
			case 1:
				replies[uint32(k+1)] = hotstuffpb.BlockToProto(mkBlock(rng, h, want.View()+1))
				shape += "W"
			case 2, 3:
				// mutate exactly one field of the right block
				pb := hotstuffpb.BlockToProto(want)
				switch rng.Intn(6) {
				case 0:
					pb.View++
				case 1:
					pb.Proposer++
				case 2:
					pb.Parent = append([]byte(nil), pb.Parent...)
					pb.Parent[rng.Intn(len(pb.Parent))] ^= 1
				case 3:
					pb.Commands = &clientpb.Batch{Commands: []*clientpb.Command{{ClientID: 99, SequenceNumber: 1, Data: []byte("x")}}}
				case 4:
					pb.Timestamp.Nanos = (pb.Timestamp.Nanos + 1) % 1000000000
				case 5:
					pb.QC.View++
				}
				replies[uint32(k+1)] = pb
				shape += "M"
			case 4:
				replies[uint32(k+1)] = hotstuffpb.BlockToProto(hotstuff.GetGenesis())
				shape += "G"
			case 5:
				replies[uint32(k+1)] = hotstuffpb.BlockToProto(mkBlock(rng, hotstuff.Hash{}, want.View()))
				shape += "W"
			}
		}
		req := &hotstuffpb.BlockHash{Hash: h[:]}
		var got *hotstuffpb.Block
		var ok bool
		var pan any
		func() {
			defer func() { pan = recover() }()
			got, ok = q.RequestBlockQF(req, replies)
		}()
		r.Eval(shape != "" && shape != "R", shape)
		r.Obs("calls", 1)
		rep := map[string]any{"case": i, "shard": p.Shard, "shape": shape}
		if pan != nil {
			r.Violate("fetch-panic", fmt.Sprintf("RequestBlockQF panicked on replies %s: %v", shape, pan), rep)
			continue
		}
		if ok != haveRight {
			r.Violate(vbase.Sig("fetch-accept", "accepted", ok), fmt.Sprintf("replies %s: returned ok=%v but a reply hashing to the request present=%v", shape, ok, haveRight), rep)
			continue
		}
		if ok {
			r.Obs("accepted", 1)
			if hotstuffpb.BlockFromProto(got).Hash() != h {
				r.Violate("fetch-wrong-block", fmt.Sprintf("replies %s: returned block does not hash to the request", shape), rep)
			}
		}
		if r.WantSample() && len(shape) >= 3 {
			r.Sample(map[string]any{"replies": shape, "legend": "R right, W wrong block, M one field mutated, G genesis", "accepted": ok})
		}
	}
}
