package synchronizer

// In-package overlay (never written to /repo): model check of the unexported timeout collector.

import (
	"fmt"
	"testing"

	"github.com/relab/hotstuff"
	"github.com/relab/hotstuff/core"
	"github.com/relab/hotstuff/verif/vbase"
)

func TestVerif(t *testing.T) {
	p := vbase.ParamsFromEnv()
	if p.Part == "" {
		t.Skip("VERIF_PART not set")
	}
	r := vbase.NewResult(p)
	switch p.Part {
	case "C08.collector":
		verifCollector(p, r)
	default:
		t.Fatalf("unknown part %s", p.Part)
	}
	if err := r.Write(p.Out); err != nil {
		t.Fatal(err)
	}
}

type colOp struct {
	Del  bool
	View hotstuff.View
	ID   hotstuff.ID
}

func (o colOp) String() string {
	if o.Del {
		return fmt.Sprintf("del<%d", o.View)
	}
	return fmt.Sprintf("t(v%d,r%d)", o.View, o.ID)
}

func mkCfg(n int) *core.RuntimeConfig {
	cfg := core.NewRuntimeConfig(1, nil)
	for i := 1; i <= n; i++ {
		cfg.AddReplica(&hotstuff.ReplicaInfo{ID: hotstuff.ID(i)})
	}
	return cfg
}

// runCollector: reference = per view the set of distinct senders; quorum exactly when a view's set
// reaches q by this very message, built from that view's messages only. After a view produced its
// certificate (or was deleted as old) further messages for it are not judged (the view has been left).
func runCollector(r *vbase.Result, n int, ops []colOp, unique bool) bool {
	cfg := mkCfg(n)
	q := 0
	for 2*q-n < (n-1)/3+1 { // reference quorum: smallest q with 2q-n >= f+1
		q++
	}
	col := newTimeoutCollector(cfg)
	ref := map[hotstuff.View]map[hotstuff.ID]bool{}
	done := map[hotstuff.View]bool{}
	views := map[hotstuff.View]bool{}
	fail := func(rule, msg string, step int) bool {
		r.Violate("collector-"+rule, fmt.Sprintf("n=%d q=%d ops %v step %d: %s", n, q, ops, step, msg), map[string]any{"n": n, "ops": fmt.Sprint(ops)})
		return false
	}
	for i, op := range ops {
		if op.Del {
			col.deleteOldViews(op.View)
			for v := range ref {
				if v < op.View {
					delete(ref, v)
					done[v] = true
				}
			}
			continue
		}
		views[op.View] = true
		list, quorum := col.add(hotstuff.TimeoutMsg{ID: op.ID, View: op.View})
		if done[op.View] {
			continue // the view has been left; not judged
		}
		set := ref[op.View]
		if set == nil {
			set = map[hotstuff.ID]bool{}
			ref[op.View] = set
		}
		was := len(set)
		set[op.ID] = true
		want := was < q && len(set) >= q
		if quorum != want {
			return fail("quorum-flag", fmt.Sprintf("add%v: quorum=%v, but %d distinct replicas have timed out in view %d (q=%d)", op, quorum, len(set), op.View, q), i)
		}
		if quorum {
			seen := map[hotstuff.ID]bool{}
			for _, m := range list {
				if m.View != op.View {
					return fail("foreign-view", fmt.Sprintf("add%v: the quorum list for view %d contains a timeout for view %d", op, op.View, m.View), i)
				}
				if seen[m.ID] {
					return fail("duplicate-sender", fmt.Sprintf("add%v: the quorum list names replica %d twice", op, m.ID), i)
				}
				seen[m.ID] = true
			}
			for id := range set {
				if !seen[id] {
					return fail("missing-sender", fmt.Sprintf("add%v: the quorum list misses the counted sender %d", op, id), i)
				}
			}
			if len(list) != len(set) {
				return fail("list-size", fmt.Sprintf("add%v: list has %d entries, %d distinct senders counted", op, len(list), len(set)), i)
			}
			done[op.View] = true
			delete(ref, op.View)
			r.Obs("quorums", 1)
		}
	}
	if unique {
		r.EvalUnique(len(views) >= 2) // a point of the exhaustive enumeration: distinct by construction
	} else {
		r.Eval(len(views) >= 2, fmt.Sprint(n, ops))
	}
	return true
}

func verifCollector(p vbase.Params, r *vbase.Result) {
	maxLen := 6
	if p.Thorough() {
		maxLen = 7
	}
	r.Rule = fmt.Sprintf("timeoutCollector (unexported) vs per-view sets of distinct senders: ALL sequences of add(view,id)/deleteOldViews over views 1..3 x ids 1..4 (n=4) up to length %d; "+
		"random sequences up to length 60 over 5 views for n in {4,7}; judged: quorum flag exactly when the view's own set reaches q, list made of that view's distinct senders only; "+
		"non-trivial: sequence mixing >= 2 views; distinct: the sequence", maxLen)
	r.Exhaustive = true
	var alpha []colOp
	for v := 1; v <= 3; v++ {
		for id := 1; id <= 4; id++ {
			alpha = append(alpha, colOp{View: hotstuff.View(v), ID: hotstuff.ID(id)})
		}
	}
	alpha = append(alpha, colOp{Del: true, View: 2}, colOp{Del: true, View: 3})
	idx := 0
	for l := 1; l <= maxLen; l++ {
		total := 1
		for i := 0; i < l; i++ {
			total *= len(alpha)
		}
		ops := make([]colOp, l)
		for code := 0; code < total; code++ {
			idx++
			if !p.Mine(idx) {
				continue
			}
			c := code
			for i := 0; i < l; i++ {
				ops[i] = alpha[c%len(alpha)]
				c /= len(alpha)
			}
			if !runCollector(r, 4, ops, true) && r.NViolations() > 5 {
				return
			}
		}
	}
	n := p.N(40000, 2000000)
	for i := 0; i < n; i++ {
		rng := vbase.NewRng(p.Seed, "C08.collector", p.Shard, i)
		nn := []int{4, 7}[rng.Intn(2)]
		l := rng.Range(5, 60)
		ops := make([]colOp, l)
		base := hotstuff.View(rng.Range(1, 20))
		for k := range ops {
			if rng.Chance(1, 8) {
				ops[k] = colOp{Del: true, View: base + hotstuff.View(rng.Range(0, 4))}
			} else {
				ops[k] = colOp{View: base + hotstuff.View(rng.Range(0, 4)), ID: hotstuff.ID(rng.Range(1, nn))}
			}
		}
		runCollector(r, nn, ops, false)
		if i < 2 {
			r.Sample(map[string]any{"n": nn, "ops": fmt.Sprint(ops)})
		}
	}
}
