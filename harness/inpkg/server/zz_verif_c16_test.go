package server

import (
	"fmt"

	"github.com/relab/hotstuff"
	"github.com/relab/hotstuff/core/eventloop"
	"github.com/relab/hotstuff/internal/proto/hotstuffpb"
	"github.com/relab/hotstuff/security/crypto"
	"github.com/relab/hotstuff/verif/vbase"
	"github.com/relab/hotstuff/verif/vk"
)

// verifProposerStamp (C16.wire): the carousel excludes the replicas that PROPOSED the last f committed blocks, and reads
// that from Block.Proposer(). The field travels on the wire, so what makes it mean "the replica that sent this proposal"
// is the receive path: whatever proposer a sender writes into its block, the proposal that reaches the protocol names
// the authenticated sender, in the message and in the block. The monitor sits on the subject's event loop and sees
// every ProposeMsg the real server hands over.
func verifProposerStamp(p vbase.Params, r *vbase.Result) {
	r.Rule = "real server Propose handler of a wired replica (states fresh/mid/deep, n in {4,7,10}); every peer X sends proposals whose block names proposer Y for Y in {0, 1..n, n+1, 2^32-1} " +
		"at the current, the next and a far view, extending the newest certified block or genesis; monitor on the event loop: exactly one ProposeMsg per call, its ID and its block's Proposer() are X, " +
		"the other fields are what was sent; non-trivial: Y != X; distinct: (n, state, X, Y, view, parent)"
	idx := 0
	for _, n := range []int{4, 7, 10} {
		for _, state := range []string{"fresh", "mid", "deep"} {
			idx++
			if !p.Mine(idx) {
				continue
			}
			rng := vbase.NewRng(p.Seed, "C16.wire", n, state)
			s := newSubject(n, crypto.NameEDDSA, uint([]int{0, 100}[rng.Intn(2)]), false, state, rng)
			var seen []hotstuff.ProposeMsg
			eventloop.Register(s.w.M(1).EL, func(m hotstuff.ProposeMsg) { seen = append(seen, m) }, eventloop.Prioritize())
			cur := s.node.VS.View()
			last := s.blocks[len(s.blocks)-1]
			lastQC := s.qcs[len(s.qcs)-1]
			gen := hotstuff.GetGenesis()
			ys := []hotstuff.ID{0, hotstuff.ID(n + 1), hotstuff.ID(^uint32(0))}
			ys = append(ys, vk.IDs(n)...)
			seq := uint64(1000)
			for x := 2; x <= n; x++ {
				X := hotstuff.ID(x)
				for _, Y := range ys {
					for vi, view := range []hotstuff.View{cur, cur + 1, 1 << 33} {
						for pi := 0; pi < 2; pi++ {
							parent, qc := last, lastQC
							if pi == 1 {
								parent, qc = gen, hotstuff.NewQuorumCert(nil, 0, gen.Hash())
							}
							seq++
							b := hotstuff.NewBlock(parent.Hash(), qc, vk.Batch(8, seq, 1), view, Y)
							seen = seen[:0]
							stop := watch(p, r, fmt.Sprintf("proposal from %d naming proposer %d", X, Y), "propose")
							pan, site := s.call("propose", X, hotstuffpb.ProposalToProto(hotstuff.ProposeMsg{ID: Y, Block: b}))
							stop()
							r.Eval(Y != X, fmt.Sprintf("%d/%s/%d/%d/%d/%d", n, state, X, Y, vi, pi))
							r.Obs("proposals_sent", 1)
							rep := map[string]any{"n": n, "state": state, "sender": X, "named_proposer": Y, "view": view}
							if pan != nil {
								// judged under C10; this subject is no longer usable
								r.Obs("panics_judged_under_C10", 1)
								r.Note("panic in %s while handling a proposal from %d naming proposer %d (judged under C10)", site, X, Y)
								goto nextSubject
							}
							if len(seen) != 1 {
								r.Violate(vbase.Sig("proposal-events", "count", len(seen)), fmt.Sprintf("a proposal from replica %d produced %d ProposeMsg events", X, len(seen)), rep)
								continue
							}
							ev := seen[0]
							r.Obs("proposal_events_observed", 1)
							if ev.ID != X {
								r.Violate(vbase.Sig("proposal-sender"), fmt.Sprintf("the proposal sent by replica %d reaches the protocol as a proposal of replica %d", X, ev.ID), rep)
							}
							if ev.Block == nil {
								r.Violate(vbase.Sig("proposal-block-missing"), fmt.Sprintf("the proposal sent by replica %d reaches the protocol without a block", X), rep)
								continue
							}
							if ev.Block.Proposer() != X {
								r.Violate(vbase.Sig("block-proposer-not-sender"), fmt.Sprintf("replica %d sent a block naming replica %d as proposer (n=%d, state %s, view %d); the block that reaches the protocol "+
									"names %d, not the sender: the carousel would exclude (or re-elect) the wrong replica", X, Y, n, state, view, ev.Block.Proposer()), rep)
							}
							if ev.Block.Parent() != b.Parent() || ev.Block.View() != b.View() || ev.Block.QuorumCert().BlockHash() != b.QuorumCert().BlockHash() {
								r.Violate(vbase.Sig("block-fields-changed"), fmt.Sprintf("the block sent by replica %d reaches the protocol with another parent, view or certificate", X), rep)
							}
							if Y == X && ev.Block.Hash() != b.Hash() {
								r.Violate(vbase.Sig("honest-block-changed"), fmt.Sprintf("an honestly labelled block of replica %d reaches the protocol with another hash", X), rep)
							}
						}
					}
				}
			}
		nextSubject:
			if r.WantSample() {
				r.Sample(map[string]any{"n": n, "state": state, "view_of_subject": cur, "named_proposers": fmt.Sprint(ys)})
			}
		}
	}
}
