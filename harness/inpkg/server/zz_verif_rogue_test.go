package server

import (
	"fmt"
	"math/big"
	"time"

	"google.golang.org/protobuf/proto"

	"github.com/relab/hotstuff"
	"github.com/relab/hotstuff/internal/proto/hotstuffpb"
	"github.com/relab/hotstuff/security/crypto"
	"github.com/relab/hotstuff/verif/vbase"
	"github.com/relab/hotstuff/verif/vk"
)

// verifWireRogue: the key-registration adversary at the wire (bls12 only). Replica n has connected with a public key of
// its choice (x*G1 minus the keys of q-1 honest replicas) and a proof-of-possession of its choice (a copy of replica
// 2's, its own old one, garbage, none). With that key it alone computes "aggregate signatures" of a quorum over anything.
// No victim signed the content (sign log), so every such certificate must leave the replica where it was - at first
// sight, when repeated, and after genuine traffic of the proof's owner.
func verifWireRogue(p vbase.Params, r *vbase.Result, base int) {
	idx := base
	for _, cache := range []uint{0, 100} {
		for _, agg := range []bool{false, true} {
			for _, state := range []string{"fresh", "mid", "deep"} {
				for _, n := range []int{4, 7} {
					idx++
					if !p.Mine(idx) {
						continue
					}
					rng := vbase.NewRng(p.Seed, "C10.wire.rogue", cache, agg, state, n)
					for _, popKind := range []string{"copy-of-replica-2", "copy-of-replica-3", "own-old-proof", "garbage", "absent"} {
						s := newSubject(n, crypto.NameBLS12, cache, agg, state, rng)
						w := s.w
						q := w.Q()
						var victims []hotstuff.ID
						for id := 2; len(victims) < q-1; id++ {
							victims = append(victims, hotstuff.ID(id))
						}
						x := new(big.Int).SetUint64(rng.Uint64() | 1)
						x.Lsh(x, 64).Or(x, new(big.Int).SetUint64(rng.Uint64()))
						rogue := w.NewRogue(hotstuff.ID(n), victims, x)
						pop := map[string]string{"copy-of-replica-2": w.PopOf(2), "copy-of-replica-3": w.PopOf(3), "own-old-proof": w.PopOf(hotstuff.ID(n)),
							"garbage": string(rng.Bytes(96)), "absent": ""}[popKind]
						rogue.Install(w.M(1), pop)
						cur := s.node.VS.View()
						last := s.blocks[len(s.blocks)-1]
						farView := cur + 1000
						forgedTC := hotstuff.NewTimeoutCert(rogue.Forge(farView.ToBytes()), farView)
						forgedQC := hotstuff.NewQuorumCert(rogue.Forge(last.ToBytes()), last.View(), last.Hash())
						// a block of the Byzantine replica's own, certified by itself alone
						own := hotstuff.NewBlock(last.Hash(), s.qcs[len(s.qcs)-1], vk.Batch(66, 1, 1), cur+5, hotstuff.ID(n))
						w.StoreAll(own)
						s.node.Chain.Store(own)
						forgedOwnQC := hotstuff.NewQuorumCert(rogue.Forge(own.ToBytes()), own.View(), own.Hash())
						for _, v := range victims {
							if w.Log.Signed(v, farView.ToBytes()) || w.Log.Signed(v, own.ToBytes()) {
								panic("harness: a victim signed the forged content")
							}
						}
						type msgCase struct {
							kind, name string
							msg        *wireCase
						}
						mk := func(kind, name string, m wireCase) msgCase { return msgCase{kind, name, &m} }
						si := func(qc *hotstuff.QuorumCert, tc *hotstuff.TimeoutCert) *hotstuffpb.SyncInfo {
							out := &hotstuffpb.SyncInfo{}
							if qc != nil {
								out.QC = hotstuffpb.QuorumCertToProto(*qc)
							}
							if tc != nil {
								out.TC = hotstuffpb.TimeoutCertToProto(*tc)
							}
							return out
						}
						child := hotstuff.NewBlock(own.Hash(), forgedOwnQC, vk.Batch(66, 2, 1), cur+6, hotstuff.ID(n))
						msgs := []msgCase{
							mk("newview", "forged-tc", wireCase{"newview", "rogue/newview-tc", si(nil, &forgedTC), false}),
							mk("newview", "forged-qc-own-block", wireCase{"newview", "rogue/newview-qc", si(&forgedOwnQC, nil), false}),
							mk("newview", "forged-qc-and-tc", wireCase{"newview", "rogue/newview-qc-tc", si(&forgedOwnQC, &forgedTC), false}),
							mk("propose", "proposal-with-forged-qc", wireCase{"propose", "rogue/proposal", hotstuffpb.ProposalToProto(hotstuff.ProposeMsg{ID: hotstuff.ID(n), Block: child}), false}),
						}
						_ = forgedQC
						present := func(step string) bool {
							for _, m := range msgs {
								before := s.node.StateTuple()
								tag := fmt.Sprintf("rogue/%s/n=%d/cache=%d/agg=%v/%s/%s/%s", state, n, cache, agg, popKind, m.name, step)
								stop := watch(p, r, tag, m.kind)
								pan, site := s.call(m.kind, hotstuff.ID(n), m.msg.msg)
								stop()
								after := s.node.StateTuple()
								r.Eval(true, tag)
								r.Obs("rogue_key_messages", 1)
								rep := map[string]any{"state": state, "n": n, "cache": cache, "aggregate": agg, "proof": popKind, "message": m.name, "step": step, "victims": victims}
								if pan != nil {
									r.Violate(vbase.Sig("panic", "msg", m.kind, "site", site), fmt.Sprintf("%s message %q makes the replica panic in %s: %v", m.kind, tag, site, pan), rep)
									return false
								}
								if before != after {
									r.Violate(vbase.Sig("unvalidated-installed", "what", "rogue-key-certificate", "msg", m.kind, "proof", popKind),
										fmt.Sprintf("replica %d registered the key x*G1-sum(keys of %v) with proof %q; its %s message with a certificate 'signed' by %v+%d, which none of them signed, changed the replica's state: %s -> %s (%s)",
											n, victims, popKind, m.name, victims, n, before, after, tag), rep)
									return false
								}
							}
							return true
						}
						if !present("first-sight") || !present("repeated") {
							continue
						}
						// genuine traffic of the victims (their keys and proofs are looked at again), then the forgeries once more
						for _, v := range victims[:min(2, len(victims))] {
							tm := w.HonestTimeouts(cur, []hotstuff.ID{v}, func(hotstuff.ID) hotstuff.QuorumCert {
								return hotstuff.NewQuorumCert(nil, 0, hotstuff.GetGenesis().Hash())
							}, agg)
							if len(tm) == 1 {
								s.call("timeout", v, hotstuffpb.TimeoutMsgToProto(tm[0]))
							}
						}
						present("after-genuine-traffic")
					}
				}
			}
		}
	}
}

// verifWireIdleLeader: the subject leads view 2 and has no client command to propose, so its event loop waits in the
// command cache until the view ends - as a real idle leader does. While it waits, a peer that claims the subject's own
// identity (without TLS the identity is request metadata) sends it a proposal for that very view, extending the known
// block with a certificate nobody signed; then the subject's timer fires. The subject has neither voted nor timed out
// in the view when it gets to the proposal: it must still not sign a vote for it.
func verifWireIdleLeader(p vbase.Params, r *vbase.Result, base int) {
	idx := base
	for _, scheme := range vk.Schemes {
		for _, cache := range []uint{0, 100} {
			for _, n := range []int{4, 7} {
				for _, claimed := range []hotstuff.ID{1, 0, 3} {
					for _, qcKind := range []string{"no-signature", "genesis-signature-free-relabelled", "one-vote"} {
						idx++
						if !p.Mine(idx) {
							continue
						}
						rng := vbase.NewRng(p.Seed, "C10.wire.idle", scheme, cache, n, claimed, qcKind)
						subjectWithoutCommands = true
						s := newSubject(n, scheme, cache, false, "fresh", rng)
						subjectWithoutCommands = false
						w := s.w
						known := s.blocks[len(s.blocks)-1] // view 1, proposed by replica 2
						s.node.Chain.Store(known)
						var qc *hotstuffpb.QuorumCert
						kh := known.Hash()
						switch qcKind {
						case "no-signature":
							qc = &hotstuffpb.QuorumCert{Hash: kh[:], View: uint64(known.View())}
						case "genesis-signature-free-relabelled":
							qc = &hotstuffpb.QuorumCert{Hash: kh[:], View: 0}
						default:
							one, err := w.M(3).Auth.Sign(known.ToBytes())
							if err != nil {
								panic(err)
							}
							qc = &hotstuffpb.QuorumCert{Hash: kh[:], View: uint64(known.View()), Sig: hotstuffpb.QuorumSignatureToProto(one)}
						}
						forged := &hotstuffpb.Proposal{Block: &hotstuffpb.Block{Parent: kh[:], QC: qc, View: 2, Proposer: 1,
							Commands: vk.Batch(4711, 1, 1), Timestamp: hotstuffpb.BlockToProto(known).Timestamp}}
						// the block as the subject will see it (the server stamps the claimed sender as proposer)
						seen := proto.Clone(forged.Block).(*hotstuffpb.Block)
						seen.Proposer = uint32(claimed)
						seenBlock := hotstuffpb.BlockFromProto(seen)
						// a genuine TC for view 1 brings the subject into view 2, which it leads
						tms := w.HonestTimeouts(1, vk.IDs(n)[1:w.Q()+1], func(hotstuff.ID) hotstuff.QuorumCert {
							return hotstuff.NewQuorumCert(nil, 0, hotstuff.GetGenesis().Hash())
						}, false)
						tc, err := w.M(2).Auth.CreateTimeoutCert(1, tms)
						if err != nil {
							continue // BLS library defect on this input
						}
						tag := fmt.Sprintf("idle-leader/%s/cache=%d/n=%d/claimed=%d/%s", scheme, cache, n, claimed, qcKind)
						stop := watch(p, r, tag, "propose")
						done := make(chan struct{})
						go func() {
							defer close(done)
							// wait until the subject's loop is parked in the command cache (or, on a fast path, has moved on)
							for k := 0; k < 2000 && s.node.VS.View() < 2; k++ {
								time.Sleep(200 * time.Microsecond)
							}
							time.Sleep(3 * time.Millisecond)
							func() {
								defer func() { _ = recover() }()
								s.impl.Propose(peerCtx(claimed), forged)
							}()
							s.node.StopTimer()
							s.w.M(1).EL.AddEvent(hotstuff.TimeoutEvent{View: 2})
						}()
						pan, site := s.call("newview", 2, &hotstuffpb.SyncInfo{TC: hotstuffpb.TimeoutCertToProto(tc)})
						<-done
						if pan == nil {
							_, pan, site = s.node.Drain(10000)
						}
						stop()
						r.Eval(true, tag)
						r.Obs("idle_leader_scenarios", 1)
						rep := map[string]any{"scheme": scheme, "cache": cache, "n": n, "claimed_identity": claimed, "certificate": qcKind}
						if pan != nil {
							r.Violate(vbase.Sig("panic", "msg", "propose", "site", site), fmt.Sprintf("%s: the replica panics in %s: %v", tag, site, pan), rep)
							continue
						}
						if s.node.VS.View() < 2 {
							r.Obs("idle_leader_view_not_reached", 1)
							continue
						}
						if w.Log.Signed(1, seenBlock.ToBytes()) {
							r.Violate(vbase.Sig("unvalidated-installed", "what", "vote-for-uncertified-proposal", "claimed", fmt.Sprint(claimed), "qc", qcKind),
								fmt.Sprintf("an idle leader (view 2, nothing to propose, not voted, not timed out) received a proposal for its view under the claimed identity %d whose certificate (%s) nobody signed, and signed a vote for it (%s)",
									claimed, qcKind, tag), rep)
						}
						if hq := s.node.VS.HighQC(); hq.BlockHash() == known.Hash() && hq.View() > 0 {
							if v, _ := w.TrueQC(hq); v == vk.MustReject {
								r.Violate(vbase.Sig("unvalidated-installed", "what", "highqc", "msg", "propose"), fmt.Sprintf("%s: the replica holds a high QC nobody signed", tag), rep)
							}
						}
					}
				}
			}
		}
	}
}
