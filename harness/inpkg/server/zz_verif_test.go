package server

// In-package overlay (never written to /repo): structure-aware fault enumeration of wire messages
// through the real serviceImpl handlers into a fully wired replica (C10).

import (
	"context"
	"fmt"
	"net"
	"os"
	"runtime"
	"strings"
	"testing"
	"time"

	"github.com/relab/gorums"
	"github.com/relab/hotstuff"
	"github.com/relab/hotstuff/core"
	"github.com/relab/hotstuff/internal/proto/clientpb"
	"github.com/relab/hotstuff/internal/proto/hotstuffpb"
	"github.com/relab/hotstuff/internal/proto/kauripb"
	"github.com/relab/hotstuff/internal/tree"
	"github.com/relab/hotstuff/protocol/comm"
	"github.com/relab/hotstuff/protocol/rules"
	"github.com/relab/hotstuff/security/crypto"
	"github.com/relab/hotstuff/verif/vbase"
	"github.com/relab/hotstuff/verif/vk"
	"google.golang.org/grpc/metadata"
	"google.golang.org/grpc/peer"
	"google.golang.org/protobuf/proto"
	"google.golang.org/protobuf/types/known/timestamppb"
)

func TestVerif(t *testing.T) {
	p := vbase.ParamsFromEnv()
	if p.Part == "" {
		t.Skip("VERIF_PART not set")
	}
	r := vbase.NewResult(p)
	switch p.Part {
	case "C10.wire":
		verifWire(p, r)
	case "C10.fuzz":
		verifWireFuzz(p, r)
	case "C16.wire":
		verifProposerStamp(p, r)
	default:
		t.Fatalf("unknown part %s", p.Part)
	}
	if err := r.Write(p.Out); err != nil {
		t.Fatal(err)
	}
}

func peerCtx(id hotstuff.ID) gorums.ServerCtx {
	ctx := peer.NewContext(context.Background(), &peer.Peer{Addr: &net.TCPAddr{IP: net.IPv4(127, 0, 0, 1), Port: 1000 + int(id)}})
	if id != 0 {
		// id 0 stands for a peer that sent no identity at all (any process can open a connection): the handlers log the
		// failed lookup and go on with id 0
		ctx = metadata.NewIncomingContext(ctx, metadata.Pairs("id", fmt.Sprint(id)))
	}
	return gorums.ServerCtx{Context: ctx}
}

// subject is a fully wired replica (id 1) behind the real service implementation.
type subject struct {
	w      *vk.World
	node   *vk.Node
	impl   *serviceImpl
	kauri  *comm.Kauri
	km     *vk.Member
	blocks []*hotstuff.Block
	qcs    []hotstuff.QuorumCert
	agg    bool
	scheme string
	cmdSeq uint64
	idle   bool // no client commands: a view the subject leads finds nothing to propose
}

// subjectWithoutCommands makes newSubject build a replica whose command cache stays empty (idle-leader scenario).
var subjectWithoutCommands bool

func newSubject(n int, scheme string, cache uint, agg bool, state string, rng *vbase.Rng) *subject {
	var opts []core.RuntimeOption
	ruleset := rules.NameChainedHotStuff
	if agg {
		opts = append(opts, core.WithAggregateQC())
		ruleset = rules.NameFastHotStuff
	}
	w := vk.NewWorld(n, scheme, cache, opts...)
	// leaders: replica 2 leads odd views, the subject even ones
	sched := []hotstuff.ID{2, 1}
	switch state {
	case "deep":
		sched = []hotstuff.ID{2, 2, 2, 2, 2, 2, 1} // replica 2 leads the first six views: the subject votes, locks and commits
	case "mid":
		sched = []hotstuff.ID{2, 2, 2, 1}
	case "timedout":
		sched = []hotstuff.ID{2, 2, 1}
	}
	node, err := vk.NewNode(w.M(1), vk.NodeOpts{Ruleset: ruleset, Leader: vk.ScriptLeader{Sched: sched}})
	if err != nil {
		panic(err)
	}
	s := &subject{w: w, node: node, agg: agg, scheme: scheme}
	w.M(1).Sender.OnSend = func(vk.SentMsg) {} // what the subject sends is not needed here
	srv := NewServer(w.M(1).EL, w.M(1).Logger, w.M(1).Cfg, w.M(1).Chain)
	s.impl = &serviceImpl{srv}
	for i := 0; i < 40 && !subjectWithoutCommands; i++ {
		node.Cmds.Add(&clientpb.Command{ClientID: 9, SequenceNumber: uint64(i + 1), Data: []byte{byte(i)}})
	}
	s.idle = subjectWithoutCommands
	node.Start()
	node.Drain(1000)
	// a Kauri instance on a separate member (tree-contribution messages)
	tr := tree.NewSimple(1, 2, vk.IDs(n))
	tr.SetTreeHeightWaitTime(time.Hour)
	s.km = w.NewMemberWith(1, core.WithKauriTree(tr))
	s.kauri = comm.NewKauri(s.km.Logger, s.km.EL, s.km.Cfg, s.km.Chain, s.km.Auth, s.km.Sender)
	s.km.EL.AddEvent(hotstuff.ReplicaConnectedEvent{})
	s.drainK()
	// drive the subject into the requested state with genuine traffic from the other replicas
	gen := hotstuff.GetGenesis()
	parent, qc := gen, hotstuff.NewQuorumCert(nil, 0, gen.Hash())
	views := map[string]int{"fresh": 0, "mid": 3, "timedout": 2, "deep": 5}[state]
	for v := 1; v <= views; v++ {
		leader := sched[(v-1)%len(sched)]
		if leader == 1 {
			// the subject proposes itself when it enters the view (driven by the QC below)
			break
		}
		b := hotstuff.NewBlock(parent.Hash(), qc, vk.Batch(7, uint64(v), 1), hotstuff.View(v), leader)
		w.StoreAll(b)
		s.blocks = append(s.blocks, b)
		s.call("propose", leader, hotstuffpb.ProposalToProto(hotstuff.ProposeMsg{ID: leader, Block: b}))
		q, _, err := w.HonestQC(b, vk.IDs(n)[:w.Q()])
		if err != nil {
			panic(err)
		}
		s.qcs = append(s.qcs, q)
		parent, qc = b, q
	}
	if len(s.blocks) == 0 {
		b := hotstuff.NewBlock(gen.Hash(), qc, vk.Batch(7, 100, 1), 1, 2)
		w.StoreAll(b)
		s.blocks = append(s.blocks, b)
		q, _, _ := w.HonestQC(b, vk.IDs(n)[:w.Q()])
		s.qcs = append(s.qcs, q)
	}
	if state == "timedout" {
		node.Deliver(hotstuff.TimeoutEvent{View: node.VS.View()}, 1000)
	}
	return s
}

func (s *subject) drainK() (pan any, site string) {
	defer func() {
		if e := recover(); e != nil {
			pan, site = e, vk.StackSite()
		}
	}()
	for s.km.EL.Tick(context.Background()) {
	}
	return
}

// topUp keeps enough fresh commands cached so that a proposal by the subject never blocks the harness thread.
func (s *subject) topUp() {
	if s.idle {
		return
	}
	for tries := 0; tries < 100; tries++ {
		fresh, token, markers, ok := vk.CmdCacheFresh(s.node.Cmds)
		if !ok || (fresh >= 8 && token) {
			return
		}
		s.cmdSeq++
		seq := s.cmdSeq
		if seq <= markers[4242] {
			seq = markers[4242] + 1
			s.cmdSeq = seq
		}
		s.node.Cmds.Add(&clientpb.Command{ClientID: 4242, SequenceNumber: seq, Data: []byte{byte(seq)}})
	}
}

// call sends one wire message through the real handler and drains the event loop, all under recover.
func (s *subject) call(kind string, from hotstuff.ID, msg proto.Message) (pan any, site string) {
	s.topUp()
	defer func() {
		if e := recover(); e != nil {
			pan, site = e, vk.StackSite()
		}
	}()
	// through the wire encoding, as gorums would deliver it
	raw, err := proto.Marshal(msg)
	if err != nil {
		return nil, ""
	}
	ctx := peerCtx(from)
	switch kind {
	case "propose":
		m := &hotstuffpb.Proposal{}
		_ = proto.Unmarshal(raw, m)
		s.impl.Propose(ctx, m)
	case "vote":
		m := &hotstuffpb.PartialCert{}
		_ = proto.Unmarshal(raw, m)
		s.impl.Vote(ctx, m)
	case "newview":
		m := &hotstuffpb.SyncInfo{}
		_ = proto.Unmarshal(raw, m)
		s.impl.NewView(ctx, m)
	case "timeout":
		m := &hotstuffpb.TimeoutMsg{}
		_ = proto.Unmarshal(raw, m)
		s.impl.Timeout(ctx, m)
	case "fetch":
		m := &hotstuffpb.BlockHash{}
		_ = proto.Unmarshal(raw, m)
		_, _ = s.impl.RequestBlock(ctx, m)
	case "contribution":
		m := &kauripb.Contribution{}
		_ = proto.Unmarshal(raw, m)
		s.km.EL.AddEvent(m) // what kauriServiceImpl.SendContribution does
		return s.drainK()
	}
	_, pan, site = s.node.Drain(10000)
	return
}

// callRaw is call for raw wire bytes: bytes that do not decode are dropped by the transport (decoded=false).
func (s *subject) callRaw(kind string, from hotstuff.ID, raw []byte) (decoded bool, pan any, site string) {
	s.topUp()
	defer func() {
		if e := recover(); e != nil {
			pan, site = e, vk.StackSite()
		}
	}()
	ctx := peerCtx(from)
	switch kind {
	case "propose":
		m := &hotstuffpb.Proposal{}
		if proto.Unmarshal(raw, m) != nil {
			return false, nil, ""
		}
		s.impl.Propose(ctx, m)
	case "vote":
		m := &hotstuffpb.PartialCert{}
		if proto.Unmarshal(raw, m) != nil {
			return false, nil, ""
		}
		s.impl.Vote(ctx, m)
	case "newview":
		m := &hotstuffpb.SyncInfo{}
		if proto.Unmarshal(raw, m) != nil {
			return false, nil, ""
		}
		s.impl.NewView(ctx, m)
	case "timeout":
		m := &hotstuffpb.TimeoutMsg{}
		if proto.Unmarshal(raw, m) != nil {
			return false, nil, ""
		}
		s.impl.Timeout(ctx, m)
	case "fetch":
		m := &hotstuffpb.BlockHash{}
		if proto.Unmarshal(raw, m) != nil {
			return false, nil, ""
		}
		_, _ = s.impl.RequestBlock(ctx, m)
	case "contribution":
		m := &kauripb.Contribution{}
		if proto.Unmarshal(raw, m) != nil {
			return false, nil, ""
		}
		s.km.EL.AddEvent(m)
		pan, site = s.drainK()
		return true, pan, site
	}
	_, pan, site = s.node.Drain(10000)
	return true, pan, site
}

func decodes(kind string, raw []byte) bool {
	var m proto.Message
	switch kind {
	case "propose":
		m = &hotstuffpb.Proposal{}
	case "vote":
		m = &hotstuffpb.PartialCert{}
	case "newview":
		m = &hotstuffpb.SyncInfo{}
	case "timeout":
		m = &hotstuffpb.TimeoutMsg{}
	case "fetch":
		m = &hotstuffpb.BlockHash{}
	default:
		m = &kauripb.Contribution{}
	}
	return proto.Unmarshal(raw, m) == nil
}

// mutateBytes applies 1..4 byte-level mutations: bit flips, byte overwrite, truncation, deletion, duplication of a
// slice, splice with another message, varint blow-up.
func mutateBytes(rng *vbase.Rng, raw []byte, other []byte) []byte {
	b := append([]byte(nil), raw...)
	for k := []int{1, 1, 1, 2, 2, 3, 4}[rng.Intn(7)]; k > 0; k-- {
		if len(b) == 0 {
			b = append(b, rng.Bytes(rng.Range(1, 8))...)
			continue
		}
		switch rng.Intn(8) {
		case 0:
			i := rng.Intn(len(b))
			b[i] ^= 1 << uint(rng.Intn(8))
		case 1:
			b[rng.Intn(len(b))] = byte(rng.Intn(256))
		case 2:
			b = b[:rng.Intn(len(b))]
		case 3:
			i := rng.Intn(len(b))
			j := i + rng.Intn(len(b)-i)
			b = append(b[:i:i], b[j:]...)
		case 4:
			i := rng.Intn(len(b))
			j := i + rng.Intn(min(len(b)-i, 40))
			b = append(b[:j:j], append(append([]byte(nil), b[i:j]...), b[j:]...)...)
		case 5:
			if len(other) > 0 {
				i, j := rng.Intn(len(b)), rng.Intn(len(other))
				b = append(b[:i:i], other[j:]...)
			}
		case 6:
			i := rng.Intn(len(b))
			b = append(b[:i:i], append([]byte{0xff, 0xff, 0xff, 0xff, 0xff, 0xff, 0xff, 0xff, 0xff, 0x01}, b[i:]...)...)
		case 7:
			i := rng.Intn(len(b))
			b = append(b[:i:i], append(rng.Bytes(rng.Range(1, 6)), b[i:]...)...)
		}
	}
	return b
}

// verifWireFuzz: byte-level mutations of the marshalled enumeration corpus (valid and invalid messages).
func verifWireFuzz(p vbase.Params, r *vbase.Result) {
	r.Rule = "byte-level mutation of the marshalled C10.wire corpus (1..4 of: bit flip, byte overwrite, truncation, deletion, slice duplication, splice with another message, oversized varint, random insertion), " +
		"delivered to the REAL serviceImpl handlers of replicas in states fresh / mid / timed out / deep x schemes x cache on/off x both timeout rules, several messages in a row on the same replica; bytes that do not decode are " +
		"dropped as the transport would; oracles after every delivery: no panic, handler returns (120 s watchdog), view / high QC view / high TC view / committed view never decrease, the held high QC and high TC are genuine " +
		"certificates (sign-log oracle); non-trivial: the mutated bytes decode; distinct: the mutated bytes"
	per := 1500 // per configuration (configurations are sharded)
	if p.Thorough() {
		per = 40000
	}
	idx := 0
	for _, scheme := range vk.Schemes {
		for _, cache := range []uint{0, 100} {
			for _, agg := range []bool{false, true} {
				for _, state := range []string{"fresh", "mid", "timedout", "deep"} {
					idx++
					if !p.Mine(idx) {
						continue
					}
					rng := vbase.NewRng(p.Seed, "C10.fuzz", scheme, cache, agg, state)
					probe := newSubject(4, scheme, cache, agg, state, rng)
					cases := probe.enumerate()
					raws := make([][]byte, len(cases))
					for i, c := range cases {
						raws[i] = mustMarshal(c.msg)
					}
					nper := per
					if scheme == crypto.NameBLS12 {
						nper = per / 3
					}
					var subj *subject
					sinceNew := 0
					for k := 0; k < nper; k++ {
						if subj == nil || sinceNew >= 25 {
							subj = newSubject(4, scheme, cache, agg, state, rng)
							for _, b := range probe.blocks {
								subj.w.StoreAll(b)
								subj.node.Chain.Store(b)
							}
							sinceNew = 0
						}
						sinceNew++
						ci := rng.Intn(len(cases))
						c := cases[ci]
						raw := mutateBytes(rng, raws[ci], raws[rng.Intn(len(raws))])
						for try := 0; try < 10 && !decodes(c.kind, raw); try++ {
							raw = mutateBytes(rng, raws[ci], raws[rng.Intn(len(raws))])
						}
						from := hotstuff.ID(rng.Range(2, 4))
						bv, bq, bt, bc := subj.node.VS.View(), subj.node.VS.HighQC().View(), subj.node.VS.HighTC().View(), subj.node.VS.CommittedBlock().View()
						tag := fmt.Sprintf("fuzz/%s/%s/cache=%d/agg=%v/%s", state, scheme, cache, agg, c.name)
						stop := watch(p, r, tag, c.kind)
						decoded, pan, site := subj.callRaw(c.kind, from, raw)
						stop()
						r.Eval(decoded, fmt.Sprintf("%s/%x", c.kind, raw))
						rep := map[string]any{"state": state, "scheme": scheme, "cache": cache, "aggregate": agg, "kind": c.kind, "mutated_from": c.name, "wire": fmt.Sprintf("%x", raw)}
						if !decoded {
							r.Obs("undecodable_dropped", 1)
							continue
						}
						r.Obs("fuzzed_"+c.kind, 1)
						if pan != nil {
							r.Violate(vbase.Sig("panic", "msg", c.kind, "site", site), fmt.Sprintf("mutated %s message (from %q) makes the replica panic in %s: %v (state %s, %s, cache %d, aggregate=%v)", c.kind, c.name, site, pan, state, scheme, cache, agg), rep)
							subj = nil
							continue
						}
						av, aq, at, ac := subj.node.VS.View(), subj.node.VS.HighQC().View(), subj.node.VS.HighTC().View(), subj.node.VS.CommittedBlock().View()
						if av < bv || aq < bq || at < bt || ac < bc {
							r.Violate(vbase.Sig("state-regressed", "msg", c.kind), fmt.Sprintf("mutated %s message (from %q) moved the replica backwards: view %d->%d highQC %d->%d highTC %d->%d committed %d->%d (state %s, %s)", c.kind, c.name, bv, av, bq, aq, bt, at, bc, ac, state, scheme), rep)
							subj = nil
							continue
						}
						if v, signers := subj.w.TrueQC(subj.node.VS.HighQC()); v == vk.MustReject && first(probe.w.TrueQC(subj.node.VS.HighQC())) == vk.MustReject {
							r.Violate(vbase.Sig("unvalidated-installed", "what", "highqc", "msg", c.kind), fmt.Sprintf("after a mutated %s message (from %q) the replica holds a high QC (view %d) that is not a valid certificate (%d real signers) (state %s, %s, cache %d, aggregate=%v)",
								c.kind, c.name, subj.node.VS.HighQC().View(), len(signers), state, scheme, cache, agg), rep)
							subj = nil
							continue
						}
						if v, signers := subj.w.TrueTC(subj.node.VS.HighTC()); v == vk.MustReject && first(probe.w.TrueTC(subj.node.VS.HighTC())) == vk.MustReject {
							r.Violate(vbase.Sig("unvalidated-installed", "what", "hightc", "msg", c.kind), fmt.Sprintf("after a mutated %s message (from %q) the replica holds a high TC (view %d) that is not a valid certificate (%d real signers) (state %s, %s, cache %d, aggregate=%v)",
								c.kind, c.name, subj.node.VS.HighTC().View(), len(signers), state, scheme, cache, agg), rep)
							subj = nil
							continue
						}
						if r.WantSample() && k%211 == 7 {
							r.Sample(map[string]any{"state": state, "scheme": scheme, "kind": c.kind, "mutated_from": c.name, "wire_bytes": len(raw)})
						}
					}
				}
			}
		}
	}
}

// ---------------------------------------------------------------- field-state generators

type variant[T any] struct {
	name  string
	val   T
	valid bool // contains genuinely valid signature material / a canonical bootstrap certificate
}

func (s *subject) sigVariants(msg []byte, signer hotstuff.ID) []variant[*hotstuffpb.QuorumSignature] {
	w := s.w
	good, _ := w.M(signer).Auth.Sign(msg)
	other, _ := w.M(signer).Auth.Sign(append([]byte("x"), msg...))
	goodPB := hotstuffpb.QuorumSignatureToProto(good)
	otherPB := hotstuffpb.QuorumSignatureToProto(other)
	out := []variant[*hotstuffpb.QuorumSignature]{
		{"absent", nil, false},
		{"empty", &hotstuffpb.QuorumSignature{}, false},
		{"valid", goodPB, true},
		{"other-message", otherPB, false},
	}
	rb := func(n int) []byte {
		b := make([]byte, n)
		for i := range b {
			b[i] = byte(i*7 + 3)
		}
		return b
	}
	out = append(out,
		variant[*hotstuffpb.QuorumSignature]{"ecdsa-empty-list", &hotstuffpb.QuorumSignature{Sig: &hotstuffpb.QuorumSignature_ECDSASigs{ECDSASigs: &hotstuffpb.ECDSAMultiSignature{}}}, false},
		variant[*hotstuffpb.QuorumSignature]{"ecdsa-nil-entry", &hotstuffpb.QuorumSignature{Sig: &hotstuffpb.QuorumSignature_ECDSASigs{ECDSASigs: &hotstuffpb.ECDSAMultiSignature{Sigs: []*hotstuffpb.ECDSASignature{nil}}}}, false},
		variant[*hotstuffpb.QuorumSignature]{"ecdsa-random", &hotstuffpb.QuorumSignature{Sig: &hotstuffpb.QuorumSignature_ECDSASigs{ECDSASigs: &hotstuffpb.ECDSAMultiSignature{Sigs: []*hotstuffpb.ECDSASignature{{Signer: uint32(signer), Sig: rb(70)}}}}}, false},
		variant[*hotstuffpb.QuorumSignature]{"ecdsa-signer0-empty", &hotstuffpb.QuorumSignature{Sig: &hotstuffpb.QuorumSignature_ECDSASigs{ECDSASigs: &hotstuffpb.ECDSAMultiSignature{Sigs: []*hotstuffpb.ECDSASignature{{Signer: 0, Sig: nil}}}}}, false},
		variant[*hotstuffpb.QuorumSignature]{"eddsa-random", &hotstuffpb.QuorumSignature{Sig: &hotstuffpb.QuorumSignature_EDDSASigs{EDDSASigs: &hotstuffpb.EDDSAMultiSignature{Sigs: []*hotstuffpb.EDDSASignature{{Signer: uint32(signer), Sig: rb(64)}}}}}, false},
		variant[*hotstuffpb.QuorumSignature]{"eddsa-short-nonmember", &hotstuffpb.QuorumSignature{Sig: &hotstuffpb.QuorumSignature_EDDSASigs{EDDSASigs: &hotstuffpb.EDDSAMultiSignature{Sigs: []*hotstuffpb.EDDSASignature{{Signer: 999, Sig: rb(3)}, {Signer: 4000000000, Sig: rb(64)}}}}}, false},
		variant[*hotstuffpb.QuorumSignature]{"bls-garbage", &hotstuffpb.QuorumSignature{Sig: &hotstuffpb.QuorumSignature_BLS12Sig{BLS12Sig: &hotstuffpb.BLS12AggregateSignature{Sig: rb(96), Participants: []byte{0xff, 0xff}}}}, false},
		variant[*hotstuffpb.QuorumSignature]{"bls-empty", &hotstuffpb.QuorumSignature{Sig: &hotstuffpb.QuorumSignature_BLS12Sig{BLS12Sig: &hotstuffpb.BLS12AggregateSignature{}}}, false},
		variant[*hotstuffpb.QuorumSignature]{"bls-infinity-noparticipants", &hotstuffpb.QuorumSignature{Sig: &hotstuffpb.QuorumSignature_BLS12Sig{BLS12Sig: &hotstuffpb.BLS12AggregateSignature{Sig: append([]byte{0xc0}, make([]byte, 95)...)}}}, false},
		variant[*hotstuffpb.QuorumSignature]{"bls-infinity-huge-bitfield", &hotstuffpb.QuorumSignature{Sig: &hotstuffpb.QuorumSignature_BLS12Sig{BLS12Sig: &hotstuffpb.BLS12AggregateSignature{Sig: append([]byte{0xc0}, make([]byte, 95)...), Participants: append(make([]byte, 40), 0x80)}}}, false},
	)
	// truncated valid signature (scheme specific)
	tr := proto.Clone(goodPB).(*hotstuffpb.QuorumSignature)
	switch x := tr.Sig.(type) {
	case *hotstuffpb.QuorumSignature_ECDSASigs:
		x.ECDSASigs.Sigs[0].Sig = x.ECDSASigs.Sigs[0].Sig[:len(x.ECDSASigs.Sigs[0].Sig)/2]
	case *hotstuffpb.QuorumSignature_EDDSASigs:
		x.EDDSASigs.Sigs[0].Sig = x.EDDSASigs.Sigs[0].Sig[:10]
	case *hotstuffpb.QuorumSignature_BLS12Sig:
		x.BLS12Sig.Sig = x.BLS12Sig.Sig[:40]
	}
	out = append(out, variant[*hotstuffpb.QuorumSignature]{"truncated", tr, false})
	return out
}

func (s *subject) views() []uint64 {
	cur := uint64(s.node.VS.View())
	vs := []uint64{0, cur, cur + 1, ^uint64(0)}
	if cur > 0 {
		vs = append(vs, cur-1)
	}
	return vs
}

func (s *subject) hashes() []variant[[]byte] {
	gen := hotstuff.GetGenesis().Hash()
	known := s.blocks[len(s.blocks)-1].Hash()
	return []variant[[]byte]{
		{"genesis", gen[:], false}, {"known", known[:], false}, {"unknown", append([]byte{9, 9, 9}, make([]byte, 29)...), false},
		{"zero", make([]byte, 32), false}, {"short", []byte{1, 2, 3, 4, 5}, false}, {"long", make([]byte, 40), false}, {"empty", nil, false},
	}
}

// qcVariants: quorum certificate sub-messages.
func (s *subject) qcVariants(full bool) []variant[*hotstuffpb.QuorumCert] {
	gen := hotstuff.GetGenesis().Hash()
	last := s.blocks[len(s.blocks)-1]
	lastQC := s.qcs[len(s.qcs)-1]
	out := []variant[*hotstuffpb.QuorumCert]{
		{"absent", nil, false},
		{"empty", &hotstuffpb.QuorumCert{}, false},
		{"genesis-canonical", &hotstuffpb.QuorumCert{Hash: gen[:], View: 0}, true},
		{"valid", hotstuffpb.QuorumCertToProto(lastQC), true},
		{"valid-sig-no-hash", &hotstuffpb.QuorumCert{Sig: hotstuffpb.QuorumCertToProto(lastQC).Sig, View: uint64(last.View())}, false},
		{"genesis-view0-but-signed", &hotstuffpb.QuorumCert{Sig: hotstuffpb.QuorumCertToProto(lastQC).Sig, View: 0, Hash: gen[:]}, false},
	}
	if !full {
		return out
	}
	lh := last.Hash()
	for _, sv := range s.sigVariants(last.ToBytes(), 2) {
		if sv.name == "valid" {
			continue // a single valid signature is not a quorum (n >= 4)
		}
		for _, v := range []uint64{0, uint64(last.View()), ^uint64(0)} {
			out = append(out, variant[*hotstuffpb.QuorumCert]{"qc-sig-" + sv.name + fmt.Sprintf("-v%d", v), &hotstuffpb.QuorumCert{Sig: sv.val, View: v, Hash: lh[:]}, false})
		}
	}
	for _, h := range s.hashes() {
		out = append(out, variant[*hotstuffpb.QuorumCert]{"qc-hash-" + h.name, &hotstuffpb.QuorumCert{Sig: hotstuffpb.QuorumCertToProto(lastQC).Sig, View: uint64(last.View()), Hash: h.val}, h.name == "known"})
	}
	return out
}

func (s *subject) tcVariants() []variant[*hotstuffpb.TimeoutCert] {
	cur := s.node.VS.View()
	tms := s.w.HonestTimeouts(cur, vk.IDs(s.w.N)[1:s.w.Q()+1], func(hotstuff.ID) hotstuff.QuorumCert {
		return hotstuff.NewQuorumCert(nil, 0, hotstuff.GetGenesis().Hash())
	}, s.agg)
	tc, _ := s.w.M(2).Auth.CreateTimeoutCert(cur, tms)
	out := []variant[*hotstuffpb.TimeoutCert]{
		{"absent", nil, false},
		{"empty", &hotstuffpb.TimeoutCert{}, true}, // view 0, no signature: the canonical bootstrap TC
		{"valid", hotstuffpb.TimeoutCertToProto(tc), true},
		{"no-sig-view-cur", &hotstuffpb.TimeoutCert{View: uint64(cur)}, false},
	}
	for _, sv := range s.sigVariants(cur.ToBytes(), 3) {
		if sv.name == "valid" || sv.name == "absent" {
			continue
		}
		out = append(out, variant[*hotstuffpb.TimeoutCert]{"tc-sig-" + sv.name, &hotstuffpb.TimeoutCert{Sig: sv.val, View: uint64(cur)}, false})
	}
	return out
}

// genuineTCs returns real timeout certificates for the views cur-1 (stale), cur, cur+1 and cur+3.
func (s *subject) genuineTCs() []variant[*hotstuffpb.TimeoutCert] {
	cur := s.node.VS.View()
	var out []variant[*hotstuffpb.TimeoutCert]
	for _, d := range []int{-1, 0, 1, 3} {
		v := hotstuff.View(int(cur) + d)
		if v < 1 {
			continue
		}
		tms := s.w.HonestTimeouts(v, vk.IDs(s.w.N)[1:s.w.Q()+1], func(hotstuff.ID) hotstuff.QuorumCert {
			return hotstuff.NewQuorumCert(nil, 0, hotstuff.GetGenesis().Hash())
		}, s.agg)
		tc, err := s.w.M(2).Auth.CreateTimeoutCert(v, tms)
		if err != nil {
			continue
		}
		out = append(out, variant[*hotstuffpb.TimeoutCert]{fmt.Sprintf("genuine-cur%+d", d), hotstuffpb.TimeoutCertToProto(tc), true})
	}
	return out
}

func (s *subject) aggVariants() []variant[*hotstuffpb.AggQC] {
	cur := s.node.VS.View()
	genQC := hotstuff.NewQuorumCert(nil, 0, hotstuff.GetGenesis().Hash())
	tms := s.w.HonestTimeouts(cur, vk.IDs(s.w.N)[1:s.w.Q()+1], func(hotstuff.ID) hotstuff.QuorumCert { return genQC }, true)
	ag, err := s.w.M(2).Auth.CreateAggregateQC(cur, tms)
	out := []variant[*hotstuffpb.AggQC]{
		{"absent", nil, false},
		{"empty", &hotstuffpb.AggQC{}, false},
		{"no-sig-with-qcs", &hotstuffpb.AggQC{QCs: map[uint32]*hotstuffpb.QuorumCert{2: hotstuffpb.QuorumCertToProto(genQC), 3: nil}, View: uint64(cur)}, false},
	}
	if err == nil {
		pb := hotstuffpb.AggregateQCToProto(ag)
		out = append(out, variant[*hotstuffpb.AggQC]{"valid", pb, true})
		c1 := proto.Clone(pb).(*hotstuffpb.AggQC)
		c1.QCs = nil
		out = append(out, variant[*hotstuffpb.AggQC]{"valid-sig-no-qcs", c1, false})
		c2 := proto.Clone(pb).(*hotstuffpb.AggQC)
		for k := range c2.QCs {
			c2.QCs[k] = nil
			break
		}
		out = append(out, variant[*hotstuffpb.AggQC]{"valid-sig-nil-qc-entry", c2, false})
		c3 := proto.Clone(pb).(*hotstuffpb.AggQC)
		c3.View = ^uint64(0)
		out = append(out, variant[*hotstuffpb.AggQC]{"valid-sig-view-max", c3, false})
	}
	for _, sv := range s.sigVariants([]byte("agg"), 3) {
		if sv.name == "valid" || sv.name == "absent" {
			continue
		}
		out = append(out, variant[*hotstuffpb.AggQC]{"agg-sig-" + sv.name, &hotstuffpb.AggQC{QCs: map[uint32]*hotstuffpb.QuorumCert{3: hotstuffpb.QuorumCertToProto(genQC)}, Sig: sv.val, View: uint64(cur)}, false})
	}
	return out
}

type wireCase struct {
	kind  string
	name  string
	msg   proto.Message
	valid bool // something inside verifies (then state changes are legitimate)
}

// enumerate builds the structured message set for the subject's current state.
func (s *subject) enumerate() []wireCase {
	var cs []wireCase
	qcsFull := s.qcVariants(true)
	qcsFew := s.qcVariants(false)
	tcs := s.tcVariants()
	aggs := s.aggVariants()
	last := s.blocks[len(s.blocks)-1]
	// --- proposals
	cs = append(cs, wireCase{"propose", "proposal-empty", &hotstuffpb.Proposal{}, false})
	cs = append(cs, wireCase{"propose", "proposal-only-aggqc", &hotstuffpb.Proposal{AggQC: &hotstuffpb.AggQC{}}, false})
	for _, q := range qcsFull {
		for _, v := range s.views() {
			for _, parent := range []variant[[]byte]{{"known", hashOf(last), false}, {"unknown", make([]byte, 32), false}, {"short", []byte{1}, false}} {
				blk := &hotstuffpb.Block{Parent: parent.val, QC: q.val, View: v, Proposer: 2, Commands: &clientpb.Batch{Commands: []*clientpb.Command{{ClientID: 77, SequenceNumber: v, Data: []byte("d")}}}, Timestamp: timestamppb.New(time.Unix(1, 1))}
				cs = append(cs, wireCase{"propose", fmt.Sprintf("proposal/qc=%s/view=%d/parent=%s", q.name, v, parent.name), &hotstuffpb.Proposal{Block: blk}, q.valid})
			}
		}
	}
	// every block-QC variant next to a genuine aggregate QC (whose high QC is the signature-free genesis certificate)
	for _, a := range aggs {
		if a.name != "valid" {
			continue
		}
		for _, q := range qcsFull {
			for _, parent := range []variant[[]byte]{{"known", hashOf(last), false}, {"genesis", hashOf(hotstuff.GetGenesis()), false}} {
				blk := &hotstuffpb.Block{Parent: parent.val, QC: q.val, View: uint64(s.node.VS.View()), Proposer: 2, Commands: &clientpb.Batch{Commands: []*clientpb.Command{{ClientID: 78, SequenceNumber: 1, Data: []byte("d")}}}, Timestamp: timestamppb.New(time.Unix(1, 1))}
				cs = append(cs, wireCase{"propose", fmt.Sprintf("proposal/qc=%s/parent=%s/aggqc=valid", q.name, parent.name), &hotstuffpb.Proposal{Block: blk, AggQC: a.val}, true})
			}
		}
	}
	for _, a := range aggs {
		blk := &hotstuffpb.Block{Parent: hashOf(last), QC: hotstuffpb.QuorumCertToProto(s.qcs[len(s.qcs)-1]), View: uint64(s.node.VS.View()), Proposer: 2}
		cs = append(cs, wireCase{"propose", "proposal/aggqc=" + a.name, &hotstuffpb.Proposal{Block: blk, AggQC: a.val}, true})
		cs = append(cs, wireCase{"propose", "proposal/noqc/aggqc=" + a.name, &hotstuffpb.Proposal{Block: &hotstuffpb.Block{View: uint64(s.node.VS.View()), Proposer: 2}, AggQC: a.val}, a.valid})
	}
	cs = append(cs, wireCase{"propose", "proposal/no-timestamp-no-commands", &hotstuffpb.Proposal{Block: &hotstuffpb.Block{View: uint64(s.node.VS.View())}}, false})
	// --- votes
	for _, h := range s.hashes() {
		for _, sv := range s.sigVariants(last.ToBytes(), 3) {
			cs = append(cs, wireCase{"vote", fmt.Sprintf("vote/hash=%s/sig=%s", h.name, sv.name), &hotstuffpb.PartialCert{Hash: h.val, Sig: sv.val}, sv.valid && h.name == "known"})
		}
	}
	// --- new view
	for _, q := range qcsFull {
		cs = append(cs, wireCase{"newview", "newview/qc=" + q.name, &hotstuffpb.SyncInfo{QC: q.val}, q.valid})
	}
	for _, tc := range tcs {
		for _, q := range qcsFew {
			cs = append(cs, wireCase{"newview", fmt.Sprintf("newview/qc=%s/tc=%s", q.name, tc.name), &hotstuffpb.SyncInfo{QC: q.val, TC: tc.val}, q.valid || tc.valid})
		}
	}
	// genuine timeout certificates of an older, the current and later views next to every QC variant: the valid part may move
	// the view, the part that does not verify must be ignored
	for _, tc := range s.genuineTCs() {
		for _, q := range qcsFull {
			cs = append(cs, wireCase{"newview", fmt.Sprintf("newview/qc=%s/tc=%s", q.name, tc.name), &hotstuffpb.SyncInfo{QC: q.val, TC: tc.val}, true})
			vsig, _ := s.w.M(3).Auth.Sign(s.node.VS.View().ToBytes())
			cs = append(cs, wireCase{"timeout", fmt.Sprintf("timeout/syncinfo/qc=%s/tc=%s", q.name, tc.name), &hotstuffpb.TimeoutMsg{View: uint64(s.node.VS.View()), ViewSig: hotstuffpb.QuorumSignatureToProto(vsig), SyncInfo: &hotstuffpb.SyncInfo{QC: q.val, TC: tc.val}}, true})
		}
	}
	for _, a := range aggs {
		for _, tc := range tcs[:4] {
			cs = append(cs, wireCase{"newview", fmt.Sprintf("newview/tc=%s/aggqc=%s", tc.name, a.name), &hotstuffpb.SyncInfo{TC: tc.val, AggQC: a.val}, a.valid || tc.valid})
		}
	}
	// --- timeouts
	cur := s.node.VS.View()
	for _, v := range s.views() {
		for _, vs := range s.sigVariants(hotstuff.View(v).ToBytes(), 3) {
			for _, ms := range []string{"absent", "empty", "valid", "ecdsa-random", "bls-garbage"} {
				var msig *hotstuffpb.QuorumSignature
				mvalid := false
				si := &hotstuffpb.SyncInfo{QC: hotstuffpb.QuorumCertToProto(hotstuff.NewQuorumCert(nil, 0, hotstuff.GetGenesis().Hash()))}
				for _, x := range s.sigVariants(hotstuff.TimeoutMsg{ID: 3, View: hotstuff.View(v), SyncInfo: hotstuffpb.SyncInfoFromProto(si)}.ToBytes(), 3) {
					if x.name == ms {
						msig, mvalid = x.val, x.valid
					}
				}
				_ = mvalid
				cs = append(cs, wireCase{"timeout", fmt.Sprintf("timeout/view=%d/viewsig=%s/msgsig=%s", v, vs.name, ms), &hotstuffpb.TimeoutMsg{View: v, ViewSig: vs.val, MsgSig: msig, SyncInfo: si}, true})
				if ms == "absent" {
					// no sync info at all: nothing in the message verifies unless the view signature does
					cs = append(cs, wireCase{"timeout", fmt.Sprintf("timeout/nosyncinfo/view=%d/viewsig=%s", v, vs.name), &hotstuffpb.TimeoutMsg{View: v, ViewSig: vs.val}, vs.valid})
				}
			}
		}
	}
	for _, tc := range tcs {
		for _, a := range aggs[:min(len(aggs), 5)] {
			vsig, _ := s.w.M(3).Auth.Sign(cur.ToBytes())
			cs = append(cs, wireCase{"timeout", fmt.Sprintf("timeout/syncinfo/tc=%s/aggqc=%s", tc.name, a.name), &hotstuffpb.TimeoutMsg{View: uint64(cur), ViewSig: hotstuffpb.QuorumSignatureToProto(vsig), SyncInfo: &hotstuffpb.SyncInfo{TC: tc.val, AggQC: a.val}}, true})
		}
	}
	// --- block fetch
	for _, h := range s.hashes() {
		cs = append(cs, wireCase{"fetch", "fetch/hash=" + h.name, &hotstuffpb.BlockHash{Hash: h.val}, false})
	}
	// --- tree contributions
	for _, v := range s.views() {
		for _, sv := range s.sigVariants(last.ToBytes(), 3) {
			cs = append(cs, wireCase{"contribution", fmt.Sprintf("contribution/view=%d/sig=%s", v, sv.name), &kauripb.Contribution{ID: 3, View: v, Signature: sv.val}, sv.valid})
		}
	}
	return cs
}

func first(v vk.Verdict, _ map[hotstuff.ID]bool) vk.Verdict { return v }

func hashOf(b *hotstuff.Block) []byte { h := b.Hash(); return h[:] }

func verifWire(p vbase.Params, r *vbase.Result) {
	r.Rule = "structure-aware fault enumeration of the Consensus and Kauri wire messages (Proposal, PartialCert, SyncInfo, TimeoutMsg, BlockHash, Contribution): cross product of field states - every optional sub-message absent / empty / " +
		"valid; signatures absent / empty oneof / valid / valid-for-another-message / random / truncated / wrong scheme / empty list / nil entry / signer 0, non-member, huge / BLS garbage, empty, infinity; views 0, cur-1, cur, cur+1, 2^64-1; " +
		"hashes genesis / known / unknown / zero / short / long / empty - each marshalled, unmarshalled and passed to the REAL serviceImpl handler with a peer context (messages in which nothing verifies are delivered six times: twice by one peer, then by two other peers, by a peer that sent no identity and by one claiming the replica's own identity; the others once more by a peer without identity), then the event loop is drained, all under recover; replica states " +
		"fresh / mid-run / just timed out / deep (five views voted, locked and committed) x schemes x cache on/off x simple and aggregate timeout rule; oracles: no panic; messages in which nothing verifies leave (view, high QC, high TC, committed block, lock, last voted view, number of own signatures) unchanged; " +
		"non-trivial: message with >= 1 non-default field; distinct: (state, scheme, cache, rule, message shape)"
	type stN struct {
		state string
		n     int
	}
	var states []stN
	for _, st := range []string{"fresh", "mid", "timedout", "deep"} {
		states = append(states, stN{st, 4})
		if p.Thorough() {
			states = append(states, stN{st, 7}, stN{st, 10})
		}
	}
	idx := 0
	for _, scheme := range vk.Schemes {
		for _, cache := range []uint{0, 100} {
			for _, agg := range []bool{false, true} {
				for _, stateN := range states {
					state, nn := stateN.state, stateN.n
					idx++
					if !p.Mine(idx) {
						continue
					}
					rng := vbase.NewRng(p.Seed, "C10.wire", scheme, cache, agg, state)
					probe := newSubject(nn, scheme, cache, agg, state, rng)
					r.ObsMax("max_committed_view_in_state_"+state, int64(probe.node.VS.CommittedBlock().View()))
					r.ObsMax("max_view_in_state_"+state, int64(probe.node.VS.View()))
					cases := probe.enumerate()
					if scheme == crypto.NameBLS12 && !p.Thorough() {
						// BLS verification dominates: a PRNG-determined third of the cases in the quick tier
						var sub []wireCase
						for k, c := range cases {
							if (k+int(p.Seed))%3 == 0 || strings.Contains(c.name, "absent") || strings.Contains(c.name, "empty") {
								sub = append(sub, c)
							}
						}
						cases = sub
					}
					// every message is delivered to a replica in the given state; the replica is rebuilt after a state change
					var subj *subject
					for k := range cases {
						if subj == nil {
							subj = newSubject(nn, scheme, cache, agg, state, rng)
							// the enumerated messages refer to the probe's blocks: make them known here too
							for _, b := range probe.blocks {
								subj.w.StoreAll(b)
								subj.node.Chain.Store(b)
							}
						}
						c := cases[k]
						before := subj.node.StateTuple()
						tag0 := fmt.Sprintf("%s/n=%d/%s/cache=%d/agg=%v/%s", state, nn, scheme, cache, agg, c.name)
						stop := watch(p, r, tag0, c.kind)
						pan, site := subj.call(c.kind, 3, c.msg)
						if pan == nil && !c.valid {
							// a peer may send the same bytes again: a replay of input in which nothing verifies must not get through either
							pan, site = subj.call(c.kind, 3, c.msg)
							// ... and by the other peers: a quorum of senders repeating what does not verify is still nothing
							// ... by a peer that sent no identity (0), and by one that claims the replica's own (without TLS the
							// identity is request metadata the sender wrote itself)
							for _, peer := range []hotstuff.ID{2, 4, 0, 1} {
								if pan == nil && int(peer) <= nn {
									pan, site = subj.call(c.kind, peer, c.msg)
								}
							}
							r.Obs("replayed_deliveries", 5)
						}
						anonymous := false
						if pan == nil && c.valid && c.kind != "contribution" {
							// the same bytes from a peer without an identity: whatever it changes, it must not crash the replica
							pan, site = subj.call(c.kind, 0, c.msg)
							anonymous = pan != nil
							r.Obs("deliveries_from_a_peer_without_identity", 1)
						}
						_ = anonymous
						stop()
						after := subj.node.StateTuple()
						tag := tag0
						r.Eval(c.name != "proposal-empty", tag)
						r.Obs("messages_"+c.kind, 1)
						rep := map[string]any{"state": state, "n": nn, "scheme": scheme, "cache": cache, "aggregate": agg, "message": c.name, "kind": c.kind, "wire": fmt.Sprintf("%x", mustMarshal(c.msg))}
						if pan != nil {
							r.Violate(vbase.Sig("panic", "msg", c.kind, "site", site), fmt.Sprintf("%s message %q makes the replica panic in %s: %v (state %s, %s, cache %d, aggregate=%v)", c.kind, c.name, site, pan, state, scheme, cache, agg), rep)
							subj = nil
							continue
						}
						// whatever else the message carried: a certificate the replica could not validate must have been ignored
						// (genuine certificates were signed either in this replica's world or in the probe's, which share the keys)
						if v, signers := subj.w.TrueQC(subj.node.VS.HighQC()); v == vk.MustReject && first(probe.w.TrueQC(subj.node.VS.HighQC())) == vk.MustReject {
							r.Violate(vbase.Sig("unvalidated-installed", "what", "highqc", "msg", c.kind), fmt.Sprintf("after %s message %q the replica holds a high QC (view %d) that is not a valid certificate (%d real signers) (state %s, %s, cache %d, aggregate=%v)",
								c.kind, c.name, subj.node.VS.HighQC().View(), len(signers), state, scheme, cache, agg), rep)
							subj = nil
							continue
						}
						if v, signers := subj.w.TrueTC(subj.node.VS.HighTC()); v == vk.MustReject && first(probe.w.TrueTC(subj.node.VS.HighTC())) == vk.MustReject {
							r.Violate(vbase.Sig("unvalidated-installed", "what", "hightc", "msg", c.kind), fmt.Sprintf("after %s message %q the replica holds a high TC (view %d) that is not a valid certificate (%d real signers) (state %s, %s, cache %d, aggregate=%v)",
								c.kind, c.name, subj.node.VS.HighTC().View(), len(signers), state, scheme, cache, agg), rep)
							subj = nil
							continue
						}
						r.Obs("held_certificates_checked", 2)
						if !c.valid && before != after {
							r.Violate(vbase.Sig("state-disturbed", "msg", c.kind), fmt.Sprintf("%s message %q in which nothing verifies changed the protocol state: %s -> %s (state %s, %s, cache %d, aggregate=%v)", c.kind, c.name, before, after, state, scheme, cache, agg), rep)
						}
						if !c.valid {
							r.Obs("state_unchanged_checks", 1)
						}
						if before != after {
							subj = nil // a legitimate state change: the next message sees the intended state again
						}
						if r.WantSample() && k%977 == 5 {
							r.Sample(map[string]any{"state": state, "scheme": scheme, "cache": cache, "aggregate": agg, "message": c.name, "wire_bytes": len(mustMarshal(c.msg))})
						}
					}
				}
			}
		}
	}
	verifWireRogue(p, r, idx)
	verifWireIdleLeader(p, r, idx+100)
}

// watch is a watchdog around one delivery: a handler that does not return within 30 s (no blocking call is
// involved: commands are available and verification is synchronous) means the replica's event loop thread is
// stuck; the site is reported and the shard ends, because the stuck goroutine cannot be recovered.
func watch(p vbase.Params, r *vbase.Result, tag, kind string) (stop func()) {
	done := make(chan struct{})
	go func() {
		t := time.NewTimer(120 * time.Second)
		defer t.Stop()
		select {
		case <-done:
		case <-t.C:
			buf := make([]byte, 1<<16)
			buf = buf[:runtime.Stack(buf, true)]
			site := "unknown"
			lines := strings.Split(string(buf), "\n")
			for i := 0; i+1 < len(lines); i++ {
				ln := lines[i]
				if strings.HasPrefix(ln, "github.com/relab/hotstuff") && !strings.Contains(lines[i+1], "zz_verif") && !strings.Contains(lines[i+1], "/verif/") && !strings.Contains(ln, "Synchronizer).Start") {
					site = strings.TrimPrefix(ln[:strings.LastIndex(ln, "(")], "github.com/relab/hotstuff/")
					break
				}
			}
			r.Violate(vbase.Sig("handler-stuck", "msg", kind, "site", site), fmt.Sprintf("a %s message keeps the replica's event loop thread busy for more than 120 s in %s (%s)", kind, site, tag), map[string]any{"message": tag})
			_ = r.Write(p.Out)
			os.Exit(0)
		}
	}()
	return func() { close(done) }
}

func mustMarshal(m proto.Message) []byte {
	b, _ := proto.Marshal(m)
	return b
}
