package twins

// In-package overlay (never written to /repo): Twins generator enumeration and verdict checks.

import (
	"sync"
	"bytes"
	"fmt"
	"io"
	"sort"
	"strings"
	"testing"

	"github.com/relab/hotstuff"
	"github.com/relab/hotstuff/core"
	"github.com/relab/hotstuff/internal/proto/clientpb"
	"github.com/relab/hotstuff/protocol/rules"
	"github.com/relab/hotstuff/verif/vbase"
)

func TestVerif(t *testing.T) {
	p := vbase.ParamsFromEnv()
	if p.Part == "" {
		t.Skip("VERIF_PART not set")
	}
	r := vbase.NewResult(p)
	switch p.Part {
	case "C18.generator":
		verifGenerator(p, r)
	case "C18.verdict":
		verifVerdict(p, r)
	case "C18.execute":
		verifExecute(p, r)
	default:
		t.Fatalf("unknown part %s", p.Part)
	}
	if err := r.Write(p.Out); err != nil {
		t.Fatal(err)
	}
}

type nolog struct{}

func (nolog) DPanic(...any)          {}
func (nolog) DPanicf(string, ...any) {}
func (nolog) Debug(...any)           {}
func (nolog) Debugf(string, ...any)  {}
func (nolog) Error(...any)           {}
func (nolog) Errorf(string, ...any)  {}
func (nolog) Fatal(a ...any)         { panic(fmt.Sprint(a...)) }
func (nolog) Fatalf(f string, a ...any) {
	panic(fmt.Sprintf(f, a...))
}
func (nolog) Info(...any)           {}
func (nolog) Infof(string, ...any)  {}
func (nolog) Panic(a ...any)        { panic(fmt.Sprint(a...)) }
func (nolog) Panicf(f string, a ...any) {
	panic(fmt.Sprintf(f, a...))
}
func (nolog) Warn(...any)          {}
func (nolog) Warnf(string, ...any) {}

// canon: the scenario as the generator represents it - per view the leader and the ORDERED list of
// partitions, each as a sorted node set. Two scenarios that differ only in the order of their partitions
// behave identically, but they are different generator outputs; such semantic duplicates are counted as
// an observation (canonSem), not judged as repetition.
func canon(s Scenario) string {
	var sb strings.Builder
	for _, v := range s {
		var parts []string
		for _, part := range v.Partitions {
			var ids []string
			for id := range part {
				ids = append(ids, fmt.Sprintf("%d.%d", id.ReplicaID, id.TwinID))
			}
			sort.Strings(ids)
			parts = append(parts, strings.Join(ids, ","))
		}
		fmt.Fprintf(&sb, "L%d{%s};", v.Leader, strings.Join(parts, "|"))
	}
	return sb.String()
}

// canonSem: per view the leader and the sorted set of sorted non-empty partitions.
func canonSem(s Scenario) string {
	var sb strings.Builder
	for _, v := range s {
		var parts []string
		for _, part := range v.Partitions {
			if len(part) == 0 {
				continue
			}
			var ids []string
			for id := range part {
				ids = append(ids, fmt.Sprintf("%d.%d", id.ReplicaID, id.TwinID))
			}
			sort.Strings(ids)
			parts = append(parts, strings.Join(ids, ","))
		}
		sort.Strings(parts)
		fmt.Fprintf(&sb, "L%d{%s};", v.Leader, strings.Join(parts, "|"))
	}
	return sb.String()
}

func safeNext(g ScenarioSource) (s Scenario, err error, pan any) {
	defer func() {
		if e := recover(); e != nil {
			pan = e
		}
	}()
	s, err = g.NextScenario()
	return
}

// drain yields up to limit scenarios; stops at the first error or panic.
func drain(g *Generator, limit int64) (out []Scenario, remainingOK bool, endErr error, endPanic any) {
	remainingOK = true
	for int64(len(out)) < limit {
		before := g.Remaining()
		s, err, pan := safeNext(g)
		if pan != nil {
			return out, remainingOK, nil, pan
		}
		if err != nil {
			return out, remainingOK, err, nil
		}
		out = append(out, s)
		if g.Remaining() != before-1 {
			remainingOK = false
		}
	}
	return out, remainingOK, nil, nil
}

func verifGenerator(p vbase.Params, r *vbase.Result) {
	bound := int64(100000)
	if p.Thorough() {
		bound = 2000000
	}
	r.Rule = fmt.Sprintf("EVERY generator setting with replicas<=5, twin pairs<=2 (and < replicas... all values incl. twins=replicas), partitions 1..3, views 1..4 whose announced count <= %d: NextScenario drained; "+
		"number yielded vs Remaining() before the first call, Remaining() decreasing by one per scenario, no two scenarios equal in canonical form, second generator identical, Shuffle(seed) twice identical and a "+
		"permutation of the unshuffled set, every node (both twins) in exactly one partition per view, leader a configured replica, JSON round trip; non-trivial: >=1 twin pair or >=2 partitions; distinct: the setting", bound)
	r.Exhaustive = true
	idx := 0
	for nodes := uint8(1); nodes <= 5; nodes++ {
		for twins := uint8(0); twins <= 2 && twins <= nodes; twins++ {
			for parts := uint8(1); parts <= 3; parts++ {
				for views := uint8(1); views <= 4; views++ {
					idx++
					if !p.Mine(idx) {
						continue
					}
					st := Settings{NumNodes: nodes, NumTwins: twins, Partitions: parts, Views: views, Ticks: 20}
					verifOneSetting(p, r, st, bound)
				}
			}
		}
	}
}

func verifOneSetting(p vbase.Params, r *vbase.Result, st Settings, bound int64) {
	tag := fmt.Sprintf("nodes=%d twins=%d partitions=%d views=%d", st.NumNodes, st.NumTwins, st.Partitions, st.Views)
	rep := map[string]any{"nodes": st.NumNodes, "twins": st.NumTwins, "partitions": st.Partitions, "views": st.Views}
	var g *Generator
	var pan any
	func() {
		defer func() { pan = recover() }()
		g = NewGenerator(nolog{}, st)
	}()
	if pan != nil {
		r.Violate("gen-new-panic", fmt.Sprintf("%s: NewGenerator panics: %v", tag, pan), rep)
		return
	}
	announced := g.Remaining()
	if announced > bound {
		r.Obs("settings_skipped_too_large", 1)
		return
	}
	nt := st.NumTwins >= 1 || st.Partitions >= 2
	r.Eval(nt, tag)
	r.Obs("settings", 1)
	if announced < 0 {
		r.Violate("gen-announced-negative", fmt.Sprintf("%s: announces %d scenarios", tag, announced), rep)
		return
	}
	out, remOK, endErr, endPan := drain(g, announced)
	r.Obs("scenarios_enumerated", int64(len(out)))
	if int64(len(out)) != announced {
		how := fmt.Sprintf("ended with error %v", endErr)
		if endPan != nil {
			how = fmt.Sprintf("panicked: %v", endPan)
		}
		r.Violate("gen-count", fmt.Sprintf("%s: announced %d scenarios, yielded %d, then %s", tag, announced, len(out), how), rep)
		return
	}
	if !remOK {
		r.Violate("gen-remaining", fmt.Sprintf("%s: Remaining() does not decrease by one per scenario", tag), rep)
	}
	if g.Remaining() != 0 {
		r.Violate("gen-remaining-end", fmt.Sprintf("%s: Remaining()=%d after the announced %d scenarios were yielded", tag, g.Remaining(), announced), rep)
	}
	// what happens on a further call is outside the statement; recorded only
	if _, err, pan := safeNext(g); pan != nil {
		r.Note("calling NextScenario after the last scenario panics (%v) - outside the statement, not judged", pan)
	} else if err == nil {
		r.Violate("gen-extra", fmt.Sprintf("%s: NextScenario yields a scenario after the announced %d", tag, announced), rep)
	}
	// distinct + well-formed
	seen := map[string]int{}
	sem := map[string]bool{}
	for _, s := range out {
		sem[canonSem(s)] = true
	}
	r.Obs("semantic_duplicates_not_judged", int64(len(out)-len(sem)))
	allNodes := map[NodeID]bool{}
	ns, ts := assignNodeIDs(st.NumNodes, st.NumTwins)
	for _, x := range append(ns, ts...) {
		allNodes[x] = true
	}
	for k, s := range out {
		c := canon(s)
		if j, dup := seen[c]; dup {
			r.Violate("gen-duplicate", fmt.Sprintf("%s: scenario %d equals scenario %d: %s", tag, k, j, c), rep)
			break
		}
		seen[c] = k
		if len(s) != int(st.Views) {
			r.Violate("gen-views", fmt.Sprintf("%s: scenario %d has %d views", tag, k, len(s)), rep)
			break
		}
		bad := false
		for vi, v := range s {
			if v.Leader < 1 || int(v.Leader) > int(st.NumNodes) {
				r.Violate("gen-leader", fmt.Sprintf("%s: scenario %d view %d: leader %d is not a configured replica", tag, k, vi, v.Leader), rep)
				bad = true
			}
			cnt := map[NodeID]int{}
			for _, part := range v.Partitions {
				for id := range part {
					cnt[id]++
				}
			}
			for id := range allNodes {
				if cnt[id] != 1 {
					r.Violate("gen-partition-membership", fmt.Sprintf("%s: scenario %d view %d: node %v is in %d partitions", tag, k, vi, id, cnt[id]), rep)
					bad = true
				}
			}
			for id := range cnt {
				if !allNodes[id] {
					r.Violate("gen-unknown-node", fmt.Sprintf("%s: scenario %d view %d: unknown node %v", tag, k, vi, id), rep)
					bad = true
				}
			}
			if bad {
				break
			}
		}
		if bad {
			break
		}
	}
	// determinism
	g2 := NewGenerator(nolog{}, st)
	out2, _, _, _ := drain(g2, announced)
	same := len(out2) == len(out)
	for k := 0; same && k < len(out); k++ {
		same = canon(out[k]) == canon(out2[k])
	}
	if !same {
		r.Violate("gen-nondeterministic", fmt.Sprintf("%s: a second generator with the same settings yields a different sequence", tag), rep)
	}
	// shuffle (an empty generator has nothing to shuffle; Shuffle on it is outside the statement)
	if announced == 0 {
		r.Note("settings announcing 0 scenarios (all replicas are twins): shuffle not exercised")
	}
	for _, seed := range []int64{1, 42, 0, -1} { // 0 and -1: a seed is a number like any other, not "no seed"
		if announced == 0 {
			break
		}
		ga, gb := NewGenerator(nolog{}, st), NewGenerator(nolog{}, st)
		ga.Shuffle(seed)
		gb.Shuffle(seed)
		oa, _, _, _ := drain(ga, announced)
		ob, _, _, _ := drain(gb, announced)
		if int64(len(oa)) != announced || len(ob) != len(oa) {
			r.Violate("gen-shuffle-count", fmt.Sprintf("%s: shuffled(seed %d) generator yields %d/%d of %d announced", tag, seed, len(oa), len(ob), announced), rep)
			continue
		}
		multiset := map[string]int{}
		okSame := true
		for k := range oa {
			if canon(oa[k]) != canon(ob[k]) {
				okSame = false
			}
			multiset[canon(oa[k])]++
		}
		if !okSame {
			r.Violate("gen-shuffle-order", fmt.Sprintf("%s: Shuffle(%d) twice gives different orders", tag, seed), rep)
		}
		for c := range seen {
			if multiset[c] != 1 {
				r.Violate("gen-shuffle-permutation", fmt.Sprintf("%s: Shuffle(%d) output is not a permutation of the unshuffled set (%s occurs %d times)", tag, seed, c, multiset[c]), rep)
				break
			}
		}
		r.Obs("shuffles_checked", 1)
	}
	// JSON round trip
	var buf bytes.Buffer
	jw, err := ToJSON(st, &buf)
	if err == nil {
		lim := min(len(out), 300)
		for _, s := range out[:lim] {
			if err = jw.WriteScenario(s); err != nil {
				break
			}
		}
		if err == nil {
			err = jw.Close()
		}
		if err == nil {
			var src ScenarioSource
			src, err = FromJSON(bytes.NewReader(buf.Bytes()))
			if err == nil {
				if src.Settings() != st || src.Remaining() != int64(lim) {
					r.Violate("json-settings", fmt.Sprintf("%s: settings/remaining after JSON round trip: %+v remaining %d (wrote %d)", tag, src.Settings(), src.Remaining(), lim), rep)
				}
				for k := 0; k < lim; k++ {
					s, e, pn := safeNext(src)
					if e != nil || pn != nil {
						r.Violate("json-read", fmt.Sprintf("%s: reading scenario %d back: %v %v", tag, k, e, pn), rep)
						break
					}
					if canon(s) != canon(out[k]) {
						r.Violate("json-roundtrip", fmt.Sprintf("%s: scenario %d changed in JSON round trip: %s -> %s", tag, k, canon(out[k]), canon(s)), rep)
						break
					}
				}
				r.Obs("json_scenarios", int64(lim))
			}
		}
	}
	if err != nil && err != io.EOF {
		r.Violate("json-error", fmt.Sprintf("%s: JSON round trip failed: %v", tag, err), rep)
	}
	// several goroutines writing to one JSONWriter (what a run with a worker pool does): whatever the interleaving, the
	// stream must read back as exactly the scenarios written
	if len(out) >= 4 {
		trials := 40
		for trial := 0; trial < trials; trial++ {
			var cb bytes.Buffer
			cw, cerr := ToJSON(st, &lockedWriter{w: &cb})
			if cerr != nil {
				break
			}
			k := min(len(out), 4+trial%5)
			start := make(chan struct{})
			var wg sync.WaitGroup
			errs := make([]error, k)
			for g := 0; g < k; g++ {
				wg.Add(1)
				go func(g int) {
					defer wg.Done()
					<-start
					errs[g] = cw.WriteScenario(out[g])
				}(g)
			}
			close(start)
			wg.Wait()
			if e := cw.Close(); e != nil {
				r.Violate("json-concurrent", fmt.Sprintf("%s: closing a JSON stream written by %d goroutines: %v", tag, k, e), rep)
				break
			}
			src, e := FromJSON(bytes.NewReader(cb.Bytes()))
			if e != nil {
				r.Violate("json-concurrent", fmt.Sprintf("%s: a JSON stream written by %d goroutines does not read back: %v (%.120q)", tag, k, e, cb.String()), rep)
				break
			}
			want := map[string]int{}
			for g := 0; g < k; g++ {
				want[canon(out[g])]++
			}
			bad := false
			for g := 0; g < k; g++ {
				sc, e, pn := safeNext(src)
				if e != nil || pn != nil {
					bad = true
					break
				}
				want[canon(sc)]--
			}
			for _, v := range want {
				if v != 0 {
					bad = true
				}
			}
			if bad {
				r.Violate("json-concurrent", fmt.Sprintf("%s: a JSON stream written by %d goroutines does not hold exactly the scenarios written", tag, k), rep)
				break
			}
			r.Obs("json_concurrent_streams", 1)
		}
	}
	if nt && len(out) > 0 && r.WantSample() {
		r.Sample(map[string]any{"settings": tag, "announced": announced, "yielded": len(out), "first": canon(out[0]), "last": canon(out[len(out)-1])})
	}
}

// ---------------------------------------------------------------- verdict

func refVerdict(logs [][]hotstuff.Hash) (safe bool, commits int) {
	maxLen := 0
	for _, l := range logs {
		if len(l) > maxLen {
			maxLen = len(l)
		}
	}
	for i := 0; i < maxLen; i++ {
		var first *hotstuff.Hash
		for _, l := range logs {
			if len(l) <= i {
				continue
			}
			if first == nil {
				h := l[i]
				first = &h
			} else if *first != l[i] {
				return false, i
			}
		}
	}
	return true, maxLen
}

func verifVerdict(p vbase.Params, r *vbase.Result) {
	r.Rule = "checkCommits on synthetic networks: 3 non-twin replicas with ALL commit logs of length<=3 over 3 distinct blocks + one twin pair with logs from a fixed diverging set (must be ignored); " +
		"random: 4 non-twin replicas, length<=4; reference: unsafe iff two non-twin replicas differ at a position both have, count = agreed prefix length; non-trivial: logs differing somewhere; distinct: the log tuple"
	r.Exhaustive = true
	var blocks []*hotstuff.Block
	for i := 0; i < 3; i++ {
		blocks = append(blocks, hotstuff.NewBlock(hotstuff.GetGenesis().Hash(), hotstuff.NewQuorumCert(nil, 0, hotstuff.GetGenesis().Hash()), &clientpb.Batch{}, hotstuff.View(i+1), 1))
	}
	var logs [][]int
	var gen func(cur []int)
	gen = func(cur []int) {
		logs = append(logs, append([]int(nil), cur...))
		if len(cur) == 3 {
			return
		}
		for b := 0; b < 3; b++ {
			gen(append(cur, b))
		}
	}
	gen(nil)
	mk := func(seq []int) []*hotstuff.Block {
		var out []*hotstuff.Block
		for _, b := range seq {
			out = append(out, blocks[b])
		}
		return out
	}
	hashes := func(seq []int) []hotstuff.Hash {
		var out []hotstuff.Hash
		for _, b := range seq {
			out = append(out, blocks[b].Hash())
		}
		return out
	}
	twinLogs := [][2][]int{{{}, {}}, {{0}, {1}}, {{2, 2, 2, 2}, {}}, {{1, 0}, {0, 1}}}
	check := func(nonTwin [][]int, tw [2][]int) {
		net := &Network{nodes: map[NodeID]*node{}, replicas: map[hotstuff.ID][]*node{}}
		var ref [][]hotstuff.Hash
		for i, l := range nonTwin {
			id := hotstuff.ID(i + 1)
			nd := &node{id: Replica(id), executedBlocks: mk(l)}
			net.nodes[nd.id] = nd
			net.replicas[id] = []*node{nd}
			ref = append(ref, hashes(l))
		}
		tid := hotstuff.ID(len(nonTwin) + 1)
		t1 := &node{id: Replica(tid).Twin(1), executedBlocks: mk(tw[0])}
		t2 := &node{id: Replica(tid).Twin(2), executedBlocks: mk(tw[1])}
		net.nodes[t1.id], net.nodes[t2.id] = t1, t2
		net.replicas[tid] = []*node{t1, t2}
		safe, commits := checkCommits(net)
		ws, wc := refVerdict(ref)
		differ := false
		for i := range nonTwin {
			if fmt.Sprint(nonTwin[i]) != fmt.Sprint(nonTwin[0]) {
				differ = true
			}
		}
		r.Eval(differ, fmt.Sprint(nonTwin, tw))
		if !ws {
			r.Obs("reference_unsafe", 1)
		}
		if safe != ws || commits != wc {
			r.Violate(vbase.Sig("verdict", "safe", safe, "ref_safe", ws), fmt.Sprintf("commit logs %v (twin logs %v): checkCommits=(safe=%v,commits=%d), reference (safe=%v,commits=%d)", nonTwin, tw, safe, commits, ws, wc),
				map[string]any{"logs": nonTwin, "twin_logs": tw})
		}
	}
	idx := 0
	for _, a := range logs {
		for _, b := range logs {
			idx++
			if !p.Mine(idx) {
				continue
			}
			for _, c := range logs {
				for ti, tw := range twinLogs {
					if ti > 0 && (len(a)+len(b)+len(c))%3 != 0 {
						continue // the twin pair is varied on a third of the tuples
					}
					check([][]int{a, b, c}, tw)
				}
			}
		}
	}
	n := p.N(20000, 1000000)
	for i := 0; i < n; i++ {
		rng := vbase.NewRng(p.Seed, "C18.verdict", p.Shard, i)
		var nt [][]int
		base := make([]int, 4)
		for k := range base {
			base[k] = rng.Intn(3)
		}
		for k := 0; k < 4; k++ {
			l := append([]int(nil), base[:rng.Range(0, 4)]...)
			if rng.Chance(1, 4) && len(l) > 0 {
				l[rng.Intn(len(l))] = rng.Intn(3)
			}
			nt = append(nt, l)
		}
		check(nt, twinLogs[rng.Intn(len(twinLogs))])
		if i < 2 {
			r.Sample(map[string]any{"non_twin_logs": nt, "blocks": 3})
		}
	}
}

// verifExecute: the executor's verdict must equal the reference verdict recomputed from the commit logs it returns.
func verifExecute(p vbase.Params, r *vbase.Result) {
	r.Rule = "ExecuteScenario on generator scenarios (4 replicas, 1 twin pair, 2 partitions, 3..7 views, sampled by PRNG) for chainedhotstuff, simplehotstuff, fasthotstuff and the repo's vulnerableFHS: " +
		"Safe/Commits must equal the reference verdict recomputed from the returned NodeCommits of non-twin replicas; non-trivial: some replica committed; distinct: (ruleset, scenario)"
	n := p.N(1600, 60000)
	names := []string{rules.NameChainedHotStuff, rules.NameSimpleHotStuff, rules.NameFastHotStuff, nameVulnerableFHS}
	for i := 0; i < n; i++ {
		rng := vbase.NewRng(p.Seed, "C18.exec", p.Shard, i)
		views := uint8(rng.Range(3, 7))
		st := Settings{NumNodes: 4, NumTwins: 1, Partitions: 2, Views: views, Ticks: 100}
		g := NewGenerator(nolog{}, st)
		g.Shuffle(int64(rng.Intn(1 << 30)))
		s, err := g.NextScenario()
		if err != nil {
			continue
		}
		name := names[rng.Intn(len(names))]
		var res ScenarioResult
		var pan any
		func() {
			defer func() { pan = recover() }()
			var opts []core.RuntimeOption
			if name == rules.NameFastHotStuff || name == nameVulnerableFHS {
				opts = append(opts, core.WithAggregateQC())
			}
			res, err = ExecuteScenario(s, st.NumNodes, st.NumTwins, st.Ticks, name, opts...)
		}()
		rep := map[string]any{"case": i, "shard": p.Shard, "ruleset": name, "scenario": canon(s)}
		if pan != nil {
			r.Violate(vbase.Sig("exec-panic", "ruleset", name), fmt.Sprintf("ExecuteScenario panics: %v", pan), rep)
			continue
		}
		if err != nil {
			r.Note("ExecuteScenario error (not judged): %v", err)
			continue
		}
		var logs [][]hotstuff.Hash
		committedAny := false
		for id, bl := range res.NodeCommits {
			if id.TwinID != 0 {
				continue
			}
			var l []hotstuff.Hash
			for _, b := range bl {
				l = append(l, b.Hash())
			}
			if len(l) > 0 {
				committedAny = true
			}
			logs = append(logs, l)
		}
		ws, wc := refVerdict(logs)
		r.Eval(committedAny, name+canon(s))
		r.Obs("executions", 1)
		r.Obs("commits_reported", int64(res.Commits))
		if !res.Safe {
			r.Obs("unsafe_reported", 1)
		}
		if res.Safe != ws || res.Commits != wc {
			r.Violate(vbase.Sig("exec-verdict", "ruleset", name), fmt.Sprintf("%s: ExecuteScenario reports safe=%v commits=%d, reference from returned logs safe=%v commits=%d", name, res.Safe, res.Commits, ws, wc), rep)
		}
		if committedAny && r.WantSample() {
			r.Sample(map[string]any{"ruleset": name, "scenario": canon(s), "safe": res.Safe, "commits": res.Commits})
		}
	}
}

// lockedWriter serializes Write calls (a file does that too); the JSONWriter decides what goes into each call.
type lockedWriter struct {
	mu sync.Mutex
	w  io.Writer
}

func (l *lockedWriter) Write(p []byte) (int, error) {
	l.mu.Lock()
	defer l.mu.Unlock()
	return l.w.Write(p)
}
