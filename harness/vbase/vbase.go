// Package vbase holds the parts of the verification harness that depend on the
// standard library only (PRNG discipline, result files, parameters), so that
// in-package overlay tests of any relab/hotstuff package can import it without
// creating an import cycle.
package vbase

import (
	"crypto/sha256"
	"encoding/binary"
	"encoding/json"
	"flag"
	"fmt"
	"os"
	"sort"
	"strconv"
	"strings"
	"sync"
	"time"
)

// ---------------------------------------------------------------- PRNG

// Rng is a splitmix64 generator. All random choices of the harness derive from
// VERIF_SEED through Derive(seed, labels...), never from time or map order.
type Rng struct{ s uint64 }

func mix(x uint64) uint64 {
	x += 0x9e3779b97f4a7c15
	z := x
	z = (z ^ (z >> 30)) * 0xbf58476d1ce4e5b9
	z = (z ^ (z >> 27)) * 0x94d049bb133111eb
	return z ^ (z >> 31)
}

// NewRng derives a generator from a seed and any number of labels.
func NewRng(seed uint64, labels ...any) *Rng {
	h := sha256.New()
	var b [8]byte
	binary.LittleEndian.PutUint64(b[:], seed)
	h.Write(b[:])
	for _, l := range labels {
		fmt.Fprintf(h, "|%v", l)
	}
	sum := h.Sum(nil)
	return &Rng{s: binary.LittleEndian.Uint64(sum[:8])}
}

func (r *Rng) Uint64() uint64 {
	r.s += 0x9e3779b97f4a7c15
	z := r.s
	z = (z ^ (z >> 30)) * 0xbf58476d1ce4e5b9
	z = (z ^ (z >> 27)) * 0x94d049bb133111eb
	return z ^ (z >> 31)
}

// Intn returns a value in [0,n). n must be > 0.
func (r *Rng) Intn(n int) int {
	if n <= 0 {
		panic("Intn: n <= 0")
	}
	return int(r.Uint64() % uint64(n))
}

// Range returns a value in [lo,hi] inclusive.
func (r *Rng) Range(lo, hi int) int { return lo + r.Intn(hi-lo+1) }

func (r *Rng) Bool() bool { return r.Uint64()&1 == 1 }

// Chance returns true with probability num/den.
func (r *Rng) Chance(num, den int) bool { return r.Intn(den) < num }

func (r *Rng) Perm(n int) []int {
	p := make([]int, n)
	for i := range p {
		p[i] = i
	}
	for i := n - 1; i > 0; i-- {
		j := r.Intn(i + 1)
		p[i], p[j] = p[j], p[i]
	}
	return p
}

func (r *Rng) Bytes(n int) []byte {
	b := make([]byte, n)
	for i := range b {
		b[i] = byte(r.Uint64())
	}
	return b
}

// Weighted picks an index with probability proportional to w[i].
func (r *Rng) Weighted(w []int) int {
	t := 0
	for _, x := range w {
		t += x
	}
	if t <= 0 {
		return 0
	}
	k := r.Intn(t)
	for i, x := range w {
		if k < x {
			return i
		}
		k -= x
	}
	return len(w) - 1
}

// Hash64 hashes a string to 64 bits (for distinct-case accounting).
func Hash64(s string) uint64 {
	sum := sha256.Sum256([]byte(s))
	return binary.LittleEndian.Uint64(sum[:8])
}

// ---------------------------------------------------------------- parameters

// Params are the run parameters handed to every harness binary by the driver.
type Params struct {
	Part    string // e.g. "C02.certs"
	Tier    string // quick | thorough
	Seed    uint64
	Shard   int
	NShards int
	Out     string // result file
	Replay  string // optional replay file
	Scale   float64
}

// Thorough reports whether the thorough tier was requested.
func (p Params) Thorough() bool { return p.Tier == "thorough" }

// N scales a case count by tier: quick value q, thorough value t, then by
// VERIF_SCALE, then divided over shards (rounded up).
func (p Params) N(q, t int) int {
	n := q
	if p.Thorough() {
		n = t
	}
	if p.Scale > 0 {
		n = int(float64(n) * p.Scale)
	}
	if p.NShards > 1 {
		n = (n + p.NShards - 1) / p.NShards
	}
	if n < 1 {
		n = 1
	}
	return n
}

// Mine reports whether case index i belongs to this shard.
func (p Params) Mine(i int) bool {
	if p.NShards <= 1 {
		return true
	}
	return i%p.NShards == p.Shard
}

// ParamsFromFlags parses the command line of vrun-style binaries.
func ParamsFromFlags() Params {
	var p Params
	var seed uint64
	flag.StringVar(&p.Part, "part", "", "campaign part, e.g. C02.certs")
	flag.StringVar(&p.Tier, "tier", "quick", "quick|thorough")
	flag.Uint64Var(&seed, "seed", 1, "VERIF_SEED")
	flag.IntVar(&p.Shard, "shard", 0, "shard index")
	flag.IntVar(&p.NShards, "nshards", 1, "number of shards")
	flag.StringVar(&p.Out, "out", "", "result file")
	flag.StringVar(&p.Replay, "replay", "", "replay file")
	flag.Float64Var(&p.Scale, "scale", 1, "workload scale factor")
	flag.Parse()
	p.Seed = seed
	return p
}

// ParamsFromEnv reads the parameters from VERIF_* variables (used by in-package
// test binaries, which cannot take custom flags easily).
func ParamsFromEnv() Params {
	p := Params{Tier: "quick", Seed: 1, NShards: 1, Scale: 1}
	p.Part = os.Getenv("VERIF_PART")
	if v := os.Getenv("VERIF_TIER"); v != "" {
		p.Tier = v
	}
	if v, err := strconv.ParseUint(os.Getenv("VERIF_SEED"), 10, 64); err == nil {
		p.Seed = v
	}
	if v, err := strconv.Atoi(os.Getenv("VERIF_SHARD")); err == nil {
		p.Shard = v
	}
	if v, err := strconv.Atoi(os.Getenv("VERIF_NSHARDS")); err == nil && v > 0 {
		p.NShards = v
	}
	if v, err := strconv.ParseFloat(os.Getenv("VERIF_SCALE"), 64); err == nil && v > 0 {
		p.Scale = v
	}
	p.Out = os.Getenv("VERIF_OUT")
	p.Replay = os.Getenv("VERIF_REPLAY")
	return p
}

// ---------------------------------------------------------------- results

// Violation is one refuting observation.
type Violation struct {
	// Sig is the coarse signature used for known-finding matching:
	// rule id plus the coarsest attributes that still identify the defect.
	Sig string `json:"sig"`
	// Msg says what was observed.
	Msg string `json:"msg"`
	// Replay holds whatever is needed to reproduce (seed, case index, trace).
	Replay any `json:"replay,omitempty"`
}

// Result is what one shard of one campaign part reports to the driver.
type Result struct {
	mu sync.Mutex

	Part        string           `json:"part"`
	Tier        string           `json:"tier"`
	Seed        uint64           `json:"seed"`
	Shard       int              `json:"shard"`
	NShards     int              `json:"nshards"`
	Evaluations int64            `json:"evaluations"`
	Nontrivial  int64            `json:"nontrivial"`
	Distinct    []string         `json:"distinct"` // hex hashes of distinct non-trivial case signatures
	// DistinctCounted counts non-trivial cases that are distinct by construction (each point of an exhaustive
	// enumeration is visited exactly once, by exactly one shard): no hash is kept for them.
	DistinctCounted int64 `json:"distinct_counted"`
	Rule        string           `json:"rule"`
	Samples     []any            `json:"samples"`
	Observed    map[string]int64 `json:"observed"`
	Violations  []Violation      `json:"violations"`
	ViolCount   map[string]int64 `json:"violation_counts"`
	Inconcl     []string         `json:"inconclusive"`
	Notes       []string         `json:"notes"`
	Assumptions []string         `json:"assumptions"`
	Exhaustive  bool             `json:"exhaustive"`
	WallS       float64          `json:"wall_s"`

	distinct   map[uint64]struct{}
	start      time.Time
	maxSamples int
	noteSet    map[string]struct{}
}

// NewResult creates a result for the given parameters.
func NewResult(p Params) *Result {
	return &Result{
		Part: p.Part, Tier: p.Tier, Seed: p.Seed, Shard: p.Shard, NShards: p.NShards,
		Observed:   map[string]int64{},
		ViolCount:  map[string]int64{},
		distinct:   map[uint64]struct{}{},
		noteSet:    map[string]struct{}{},
		start:      time.Now(),
		maxSamples: 4,
	}
}

// Eval counts one evaluated case. If nontrivial, its signature is recorded in
// the distinct set.
func (r *Result) Eval(nontrivial bool, signature string) {
	r.mu.Lock()
	r.Evaluations++
	if nontrivial {
		r.Nontrivial++
		r.distinct[Hash64(signature)] = struct{}{}
	}
	r.mu.Unlock()
}

// EvalUnique records one evaluation of a case that is distinct from every other case by construction
// (a point of an exhaustive enumeration, visited once by one shard): counted, not hashed.
func (r *Result) EvalUnique(nontrivial bool) {
	r.mu.Lock()
	r.Evaluations++
	if nontrivial {
		r.Nontrivial++
		r.DistinctCounted++
	}
	r.mu.Unlock()
}

// EvalN counts n trivial evaluations at once.
func (r *Result) EvalN(n int64) {
	r.mu.Lock()
	r.Evaluations += n
	r.mu.Unlock()
}

// Obs adds n to an observation counter.
func (r *Result) Obs(key string, n int64) {
	r.mu.Lock()
	r.Observed[key] += n
	r.mu.Unlock()
}

// ObsMax keeps the maximum.
func (r *Result) ObsMax(key string, v int64) {
	r.mu.Lock()
	if v > r.Observed[key] {
		r.Observed[key] = v
	}
	r.mu.Unlock()
}

// Sample keeps up to a few cases verbatim.
func (r *Result) Sample(s any) {
	r.mu.Lock()
	if len(r.Samples) < r.maxSamples {
		r.Samples = append(r.Samples, s)
	}
	r.mu.Unlock()
}

// WantSample reports whether more samples are wanted.
func (r *Result) WantSample() bool {
	r.mu.Lock()
	defer r.mu.Unlock()
	return len(r.Samples) < r.maxSamples
}

// Violate records a violation; at most 3 are kept verbatim per signature.
func (r *Result) Violate(sig, msg string, replay any) {
	r.mu.Lock()
	r.ViolCount[sig]++
	if r.ViolCount[sig] <= 3 {
		r.Violations = append(r.Violations, Violation{Sig: sig, Msg: msg, Replay: replay})
	}
	r.mu.Unlock()
}

// NViolations returns the number of violations recorded so far.
func (r *Result) NViolations() int64 {
	r.mu.Lock()
	defer r.mu.Unlock()
	var n int64
	for _, c := range r.ViolCount {
		n += c
	}
	return n
}

// Inconclusive records a reason why this shard could not decide.
func (r *Result) Inconclusive(reason string) {
	r.mu.Lock()
	r.Inconcl = append(r.Inconcl, reason)
	r.mu.Unlock()
}

// Note records a free-text remark once.
func (r *Result) Note(format string, a ...any) {
	s := fmt.Sprintf(format, a...)
	r.mu.Lock()
	if _, ok := r.noteSet[s]; !ok && len(r.Notes) < 40 {
		r.noteSet[s] = struct{}{}
		r.Notes = append(r.Notes, s)
	}
	r.mu.Unlock()
}

// Assume records an assumption once.
func (r *Result) Assume(s string) {
	r.mu.Lock()
	for _, a := range r.Assumptions {
		if a == s {
			r.mu.Unlock()
			return
		}
	}
	r.Assumptions = append(r.Assumptions, s)
	r.mu.Unlock()
}

// Write finalises and writes the result file.
func (r *Result) Write(path string) error {
	r.mu.Lock()
	defer r.mu.Unlock()
	r.Distinct = r.Distinct[:0]
	keys := make([]uint64, 0, len(r.distinct))
	for k := range r.distinct {
		keys = append(keys, k)
	}
	sort.Slice(keys, func(i, j int) bool { return keys[i] < keys[j] })
	for _, k := range keys {
		r.Distinct = append(r.Distinct, strconv.FormatUint(k, 16))
	}
	r.WallS = time.Since(r.start).Seconds()
	if r.Samples == nil {
		r.Samples = []any{}
	}
	if r.Violations == nil {
		r.Violations = []Violation{}
	}
	data, err := json.Marshal(r)
	if err != nil {
		return err
	}
	if path == "" {
		_, err = os.Stdout.Write(append(data, '\n'))
		return err
	}
	tmp := path + ".tmp"
	if err := os.WriteFile(tmp, data, 0o644); err != nil {
		return err
	}
	return os.Rename(tmp, path)
}

// Sig builds a violation signature "rule:k=v,k=v".
func Sig(rule string, kv ...any) string {
	var sb strings.Builder
	sb.WriteString(rule)
	for i := 0; i+1 < len(kv); i += 2 {
		if i == 0 {
			sb.WriteByte(':')
		} else {
			sb.WriteByte(',')
		}
		fmt.Fprintf(&sb, "%v=%v", kv[i], kv[i+1])
	}
	return sb.String()
}
