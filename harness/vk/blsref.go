package vk

import (
	bls12 "github.com/kilic/bls12-381"
	"github.com/relab/hotstuff"
	"github.com/relab/hotstuff/security/crypto"
)

// The pinned pairing library (kilic/bls12-381 v0.1.1-0.20210208...) has a defect in its multi-pairing
// product: for roughly 5 in a million inputs e(-G1,sig)*e(pk,H(m)) evaluated in one engine is not one
// although the two pairings computed separately are equal (observed with a diagnostic campaign: a
// signature just produced by Sign fails Verify, deterministically for that key and message; the same
// check with the pairs added in the other order, or with two separate pairings, succeeds). The
// repository's bls12 code inherits it: it rarely rejects genuine signatures.
//
// The functions below let completeness oracles tell this library defect from a regression in the
// repository: LibraryDefect is true iff the equation holds when computed with separate pairings but
// fails when the library is called directly with the formulation the pinned code uses.

var refBLSDomain = []byte("BLS_SIG_BLS12381G2_XMD:SHA-256_SSWU_RO_POP_")

func (w *World) blsPub(id hotstuff.ID) (*bls12.PointG1, bool) {
	k, ok := w.Keys[id]
	if !ok {
		return nil, false
	}
	pub, ok := k.Public().(*crypto.BLS12PublicKey)
	if !ok {
		return nil, false
	}
	p, err := bls12.NewG1().FromCompressed(pub.ToBytes())
	if err != nil {
		return nil, false
	}
	return p, true
}

// blsRef evaluates the verification equation of a BLS (aggregate) signature in two ways.
func (w *World) blsRef(sig hotstuff.QuorumSignature, msgOf func(hotstuff.ID) []byte) (separate, sameFormula, ok bool) {
	p := Decompose(sig)
	if p.Kind != crypto.NameBLS12 || len(p.Signers) == 0 {
		return false, false, false
	}
	sp, err := bls12.NewG2().FromCompressed(p.Agg)
	if err != nil {
		return false, false, false
	}
	// group signers by message
	type grp struct {
		msg []byte
		pk  bls12.PointG1
	}
	var groups []*grp
	g1 := bls12.NewG1()
	for _, id := range p.Signers {
		m := msgOf(id)
		pk, okp := w.blsPub(id)
		if m == nil || !okp {
			return false, false, false
		}
		var g *grp
		for _, x := range groups {
			if string(x.msg) == string(m) {
				g = x
			}
		}
		if g == nil {
			g = &grp{msg: m}
			groups = append(groups, g)
		}
		g1.Add(&g.pk, &g.pk, pk)
	}
	// separate pairings, multiplied in GT
	gt := bls12.NewGT()
	var prod *bls12.E
	for _, g := range groups {
		h, err := bls12.NewG2().HashToCurve(g.msg, refBLSDomain)
		if err != nil {
			return false, false, false
		}
		e := bls12.NewEngine()
		pk := g.pk
		e.AddPair(&pk, h)
		r := e.Result()
		if prod == nil {
			prod = r
		} else {
			gt.Mul(prod, prod, r)
		}
	}
	es := bls12.NewEngine()
	s1 := *sp
	es.AddPair(&bls12.G1One, &s1)
	separate = prod.Equal(es.Result())
	// the pinned code's formulation, straight on the library
	ef := bls12.NewEngine()
	s2 := *sp
	if len(groups) == 1 {
		ef.AddPairInv(&bls12.G1One, &s2)
		h, _ := bls12.NewG2().HashToCurve(groups[0].msg, refBLSDomain)
		pk := groups[0].pk
		ef.AddPair(&pk, h)
	} else {
		for _, g := range groups {
			h, _ := bls12.NewG2().HashToCurve(g.msg, refBLSDomain)
			pk := g.pk
			ef.AddPair(&pk, h)
		}
		ef.AddPairInv(&bls12.G1One, &s2)
	}
	sameFormula = ef.Check()
	return separate, sameFormula, true
}

// LibraryDefect reports whether a rejection of this ground-truth-valid BLS signature is explained by the
// pairing library's multi-pairing defect (and not by the repository's code).
func (w *World) LibraryDefect(sig hotstuff.QuorumSignature, msgOf func(hotstuff.ID) []byte) bool {
	if w.Scheme != crypto.NameBLS12 {
		return false
	}
	sep, same, ok := w.blsRef(sig, msgOf)
	if !ok {
		return false
	}
	if sep && !same {
		return true
	}
	if sep && len(Decompose(sig).Signers) > 1 {
		// batch verification adds the pairs in map order: the defect is order dependent, so a rejection of a
		// multi-message aggregate that is valid by separate pairings is attributed to the library as well
		msgs := map[string]bool{}
		for _, id := range Decompose(sig).Signers {
			msgs[string(msgOf(id))] = true
		}
		return len(msgs) > 1
	}
	return false
}
