package vk

import (
	"fmt"

	"github.com/relab/hotstuff"
	"github.com/relab/hotstuff/core"
	"github.com/relab/hotstuff/internal/proto/hotstuffpb"
	"github.com/relab/hotstuff/security/crypto"
	"github.com/relab/hotstuff/verif/vbase"
)

func init() {
	Register("C02.certs", c02Certs)
}

// piece: the signature that replica Src really produces over Msg, presented under
// the label Claim.
type piece struct {
	Claim hotstuff.ID
	Src   hotstuff.ID
	Msg   []byte
	Raw   []byte // if non-nil, use these bytes instead of a real signature (random / truncated)
}

// rawSig returns the bytes of src's real signature over msg (signing on demand; the
// signing is recorded in the sign log, which is what makes it ground truth).
func (w *World) rawSig(src hotstuff.ID, msg []byte) []byte {
	if ss := w.Log.SigsFor(src, msg); len(ss) > 0 {
		return ss[0]
	}
	s, err := w.M(src).Auth.Sign(msg)
	if err != nil {
		panic(err)
	}
	return s.ToBytes()
}

// assemble builds a quorum signature object, as a decoder would, from pieces.
// For BLS the point is the sum of the pieces' points and the bit field holds the
// claims plus extraBits, followed by `trailing` zero bytes.
func (w *World) assemble(ps []piece, extraBits []hotstuff.ID, trailing int) hotstuff.QuorumSignature {
	switch w.Scheme {
	case crypto.NameECDSA:
		var sigs []*crypto.ECDSASignature
		for _, p := range ps {
			b := p.Raw
			if b == nil {
				b = w.rawSig(p.Src, p.Msg)
			}
			sigs = append(sigs, crypto.RestoreECDSASignature(b, p.Claim))
		}
		return crypto.NewMulti(sigs...)
	case crypto.NameEDDSA:
		var sigs []*crypto.EDDSASignature
		for _, p := range ps {
			b := p.Raw
			if b == nil {
				b = w.rawSig(p.Src, p.Msg)
			}
			sigs = append(sigs, crypto.RestoreEDDSASignature(b, p.Claim))
		}
		return crypto.NewMulti(sigs...)
	case crypto.NameBLS12:
		var pts [][]byte
		var bf crypto.Bitfield
		for _, p := range ps {
			if p.Raw != nil {
				pts = append(pts, p.Raw)
			} else {
				pts = append(pts, w.rawSig(p.Src, p.Msg))
			}
			bf.Add(p.Claim)
		}
		for _, id := range extraBits {
			bf.Add(id)
		}
		sum, ok := blsSum(pts)
		if !ok {
			return nil // undecodable point: the decoder yields no signature
		}
		data := append(append([]byte(nil), bf.Bytes()...), make([]byte, trailing)...)
		s, err := crypto.RestoreBLS12AggregateSignature(sum, crypto.BitfieldFromBytes(data))
		if err != nil {
			return nil
		}
		return s
	}
	panic("scheme")
}

func honest(ids []hotstuff.ID, msg []byte) []piece {
	var ps []piece
	for _, id := range ids {
		ps = append(ps, piece{Claim: id, Src: id, Msg: msg})
	}
	return ps
}

type c02Case struct {
	Typ   string // QC | TC | AggQC
	Class string
	QC    hotstuff.QuorumCert
	TC    hotstuff.TimeoutCert
	Agg   hotstuff.AggregateQC
}

// viaWire passes the certificate through its wire form, as a receiver sees it.
func (c *c02Case) viaWire() {
	switch c.Typ {
	case "QC":
		c.QC = hotstuffpb.QuorumCertFromProto(wire(hotstuffpb.QuorumCertToProto(c.QC), &hotstuffpb.QuorumCert{}))
	case "TC":
		c.TC = hotstuffpb.TimeoutCertFromProto(wire(hotstuffpb.TimeoutCertToProto(c.TC), &hotstuffpb.TimeoutCert{}))
	case "AggQC":
		c.Agg = hotstuffpb.AggregateQCFromProto(wire(hotstuffpb.AggregateQCToProto(c.Agg), &hotstuffpb.AggQC{}))
	}
}

// certLibraryDefect: is the rejection of this (ground-truth valid) certificate explained by the pairing library defect?
func (w *World) certLibraryDefect(c *c02Case) bool {
	switch c.Typ {
	case "QC":
		b, ok := w.Blocks.Get(c.QC.BlockHash())
		if !ok || c.QC.Signature() == nil {
			return false
		}
		return w.LibraryDefect(c.QC.Signature(), func(hotstuff.ID) []byte { return b.ToBytes() })
	case "TC":
		if c.TC.Signature() == nil {
			return false
		}
		return w.LibraryDefect(c.TC.Signature(), func(hotstuff.ID) []byte { return c.TC.View().ToBytes() })
	default:
		if c.Agg.Sig() == nil {
			return false
		}
		if w.LibraryDefect(c.Agg.Sig(), func(id hotstuff.ID) []byte {
			qc, ok := c.Agg.QCs()[id]
			if !ok {
				return nil
			}
			return hotstuff.TimeoutMsg{ID: id, View: c.Agg.View(), SyncInfo: hotstuff.NewSyncInfoWith(qc)}.ToBytes()
		}) {
			return true
		}
		// or one of the attested QCs is rejected by the library
		for _, qc := range c.Agg.QCs() {
			if b, ok := w.Blocks.Get(qc.BlockHash()); ok && qc.Signature() != nil {
				if w.LibraryDefect(qc.Signature(), func(hotstuff.ID) []byte { return b.ToBytes() }) {
					return true
				}
			}
		}
		return false
	}
}

func c02Certs(p vbase.Params, r *vbase.Result) {
	r.Rule = "for scheme x cache{0,1,3,100} x n=1..13: honest QC/TC/AggQC from random quorums (completeness at EVERY replica, n>=2) and every structural mutation class (repeated signer, sub-quorum, padded sub-quorum, " +
		"unknown signer, swapped ids, foreign-message signatures, relabelled view/hash, genesis hash with view!=0, empty/absent signature, random/truncated bytes, BLS bit-field extra/missing bits and trailing zeros, " +
		"BLS point at infinity, mixed views, AggQC with relabelled view / swapped / dropped / lowered / invalid per-signer QCs, BLS participant labels swapped) built as a decoder would and passed through the wire form, presented to a verifier that " +
		"has just verified the honest original and its parts (cache warm) and to another one (cold); oracle = sign-log ground truth, never security/cert; non-trivial: mutated certificate; " +
		"distinct: (type,class,scheme,cache,n,warm/cold)"
	r.Assume("bootstrap convention: the only signature-free certificates that are valid are QC{genesis hash, view 0} and TC{view 0}")
	r.Assume("cryptographic hardness: forged means structurally forged (relabelled, replayed, repeated, truncated), never a break of the scheme")
	reps := 2
	if p.Thorough() {
		reps = 120
	}
	idx := 0
	for _, scheme := range Schemes {
		for _, cache := range []uint{0, 1, 3, 100} {
			for n := 1; n <= 13; n++ {
				for rep := 0; rep < reps; rep++ {
					idx++
					if !p.Mine(idx) {
						continue
					}
					c02Cell(p, r, scheme, cache, n, rep)
				}
			}
		}
	}
}

func c02Cell(p vbase.Params, r *vbase.Result, scheme string, cache uint, n, repIdx int) {
	rng := vbase.NewRng(p.Seed, "C02", scheme, cache, n, repIdx)
	w := NewWorld(n, scheme, cache, core.WithAggregateQC())
	q := w.Q()
	gen := hotstuff.GetGenesis()
	genQC := hotstuff.NewQuorumCert(nil, 0, gen.Hash())
	// blocks: A(view 1) <- B(view 2) <- C(view 4); D: sibling of B with the same view 2
	A := hotstuff.NewBlock(gen.Hash(), genQC, Batch(1, 1, 1), 1, 1)
	w.StoreAll(A)
	pick := func(k int) []hotstuff.ID {
		var ids []hotstuff.ID
		for _, x := range rng.Perm(n)[:k] {
			ids = append(ids, hotstuff.ID(x+1))
		}
		return ids
	}
	quorum := func() []hotstuff.ID { return pick(rng.Range(q, n)) }
	mkQC := func(b *hotstuff.Block, ids []hotstuff.ID) hotstuff.QuorumCert {
		return hotstuff.NewQuorumCert(w.assemble(honest(ids, b.ToBytes()), nil, 0), b.View(), b.Hash())
	}
	SA := quorum()
	qcA := mkQC(A, SA)
	B := hotstuff.NewBlock(A.Hash(), qcA, Batch(1, 2, 1), 2, hotstuff.ID(1+1%n))
	D := hotstuff.NewBlock(A.Hash(), qcA, Batch(2, 1, 1), 2, hotstuff.ID(1+2%n))
	w.StoreAll(B)
	w.StoreAll(D)
	SB := quorum()
	qcB := mkQC(B, SB)
	C := hotstuff.NewBlock(B.Hash(), qcB, Batch(1, 3, 1), 4, 1)
	w.StoreAll(C)

	warm := w.M(1)
	cold := w.M(hotstuff.ID(n))
	early := w.NewMemberIncremental(hotstuff.ID(n)) // registered its peers one by one, answering quorum queries in between
	cacheTag := "off"
	if cache > 0 {
		cacheTag = "on"
	}

	verify := func(m *Member, c *c02Case) (err error, high *hotstuff.QuorumCert, pan any) {
		defer func() {
			if e := recover(); e != nil {
				pan = e
			}
		}()
		switch c.Typ {
		case "QC":
			return m.Auth.VerifyQuorumCert(c.QC), nil, nil
		case "TC":
			return m.Auth.VerifyTimeoutCert(c.TC), nil, nil
		default:
			h, err := m.Auth.VerifyAggregateQC(c.Agg)
			return err, &h, nil
		}
	}
	judge := func(c *c02Case) (Verdict, *hotstuff.QuorumCert, map[hotstuff.ID]bool) {
		switch c.Typ {
		case "QC":
			v, s := w.TrueQC(c.QC)
			return v, nil, s
		case "TC":
			v, s := w.TrueTC(c.TC)
			return v, nil, s
		default:
			v, s, best := w.TrueAggQC(c.Agg)
			return v, best, s
		}
	}
	present := func(c c02Case, honestMade bool) {
		c.viaWire()
		verd, best, signers := judge(&c)
		if honestMade {
			verd = MustAccept
		}
		targets := []*Member{warm, cold, early}
		modes := []string{"warm", "cold", "configured-incrementally"}
		if honestMade {
			targets = w.Members
			modes = nil
		}
		for ti, m := range targets {
			mode := "all"
			if modes != nil {
				mode = modes[ti]
				if ti == 1 && cold == warm {
					continue
				}
			}
			err, high, pan := verify(m, &c)
			r.Obs("verifications", 1)
			r.Eval(!honestMade, fmt.Sprintf("%s/%s/%s/%d/%d/%s", c.Typ, c.Class, scheme, cache, n, mode))
			rp := map[string]any{"scheme": scheme, "cache": cache, "n": n, "rep": repIdx, "type": c.Typ, "class": c.Class, "verifier": mode, "seed": p.Seed}
			if pan != nil {
				r.Obs("panics_attributed_to_C10", 1)
				r.Note("%s/%s (%s) panics in verification: attributed to C10, not a verdict", c.Typ, c.Class, scheme)
				continue
			}
			accepted := err == nil
			if accepted {
				r.Obs("accepted", 1)
			} else {
				r.Obs("rejected", 1)
			}
			switch verd {
			case MustReject:
				r.Obs("oracle_must_reject", 1)
				if accepted {
					r.Violate(vbase.Sig("cert-sound", "type", c.Typ, "class", c.Class, "scheme", scheme, "cache", cacheTag),
						fmt.Sprintf("%s accepted although only %d distinct replicas really signed the claimed content (q=%d, n=%d): class %s, scheme %s, cache %d, verifier %s; true signers %v",
							c.Typ, len(signers), q, n, c.Class, scheme, cache, mode, SortedIDs(signers)), rp)
				}
			case MustAccept:
				r.Obs("oracle_must_accept", 1)
				if !accepted && w.certLibraryDefect(&c) {
					// the pinned pairing library's multi-pairing defect (see blsref.go), not the repository's logic
					r.Violate("bls-library-rejects-valid-signature", fmt.Sprintf("honest %s (%s) rejected at replica %d: %v - the equation holds with separate pairings but the pairing library's product check fails for this input (scheme bls12, n=%d)", c.Typ, c.Class, m.ID, err, n), rp)
				} else if !accepted && (n >= 2 || !honestMade) {
					r.Violate(vbase.Sig("cert-complete", "type", c.Typ, "class", c.Class, "scheme", scheme, "cache", cacheTag),
						fmt.Sprintf("honest %s (%s) rejected at replica %d: %v (scheme %s, cache %d, n=%d)", c.Typ, c.Class, m.ID, err, scheme, cache, n), rp)
				}
			default:
				r.Obs("oracle_unjudged", 1)
			}
			if c.Typ == "AggQC" && accepted && verd != MustReject && high != nil {
				// the reported high QC must be the highest-view ground-truth-valid QC among the true signers' QCs
				if best == nil {
					r.Violate(vbase.Sig("agg-highqc-none", "class", c.Class, "scheme", scheme, "cache", cacheTag),
						fmt.Sprintf("AggQC (%s) accepted with high QC view %d although none of its signers' QCs is valid", c.Class, high.View()), rp)
				} else if high.View() != best.View() {
					r.Violate(vbase.Sig("agg-highqc", "class", c.Class, "scheme", scheme, "cache", cacheTag),
						fmt.Sprintf("AggQC (%s): reported high QC has view %d, the highest valid QC attested by its signers has view %d", c.Class, high.View(), best.View()), rp)
				} else if hv, _ := w.TrueQC(*high); hv == MustReject {
					r.Violate(vbase.Sig("agg-highqc-invalid", "class", c.Class, "scheme", scheme, "cache", cacheTag),
						fmt.Sprintf("AggQC (%s): reported high QC (view %d) is not a valid certificate", c.Class, high.View()), rp)
				}
				r.Obs("highqc_checked", 1)
			}
		}
		if r.WantSample() && !honestMade && n >= 4 {
			r.Sample(map[string]any{"scheme": scheme, "cache": cache, "n": n, "q": q, "type": c.Typ, "class": c.Class, "oracle": verd.String()})
		}
	}

	// ---------------- QC
	S := quorum()
	bBytes := B.ToBytes()
	if len(S) >= 2 {
		// honestly assembled through the real CreateQuorumCert
		qc, pcs, err := w.HonestQC(B, S)
		if err != nil {
			r.Violate(vbase.Sig("cert-create", "type", "QC", "scheme", scheme), fmt.Sprintf("CreateQuorumCert from %d honest votes failed: %v", len(S), err), nil)
		} else {
			present(c02Case{Typ: "QC", Class: "honest", QC: qc}, true)
			// warm the cache with the parts, as a leader that collected the votes would have
			for _, pc := range pcs {
				_ = warm.Auth.VerifyPartialCert(pc)
			}
			_ = warm.Auth.VerifyQuorumCert(qc)
		}
	} else {
		present(c02Case{Typ: "QC", Class: "honest-single", QC: mkQC(B, S)}, n >= 2)
		_ = warm.Auth.VerifyQuorumCert(mkQC(B, S))
	}
	one := S[0]
	mut := func(class string, sig hotstuff.QuorumSignature, view hotstuff.View, hash hotstuff.Hash) {
		present(c02Case{Typ: "QC", Class: class, QC: hotstuff.NewQuorumCert(sig, view, hash)}, false)
	}
	rep := func(id hotstuff.ID, k int, msg []byte) []piece {
		var ps []piece
		for i := 0; i < k; i++ {
			ps = append(ps, piece{Claim: id, Src: id, Msg: msg})
		}
		return ps
	}
	// one genuine signature re-cut into a "quorum": the claimed signer ids after the first are carved out of the signature's
	// own bytes and the rest of the bytes is distributed over the entries, so that signer ids followed by signature bytes
	// read exactly like the single signature the verifier has already checked (and may have cached)
	recut := func(signer hotstuff.ID, msg []byte) hotstuff.QuorumSignature {
		if scheme == crypto.NameBLS12 || q < 2 {
			return nil
		}
		_ = warm.Auth.Verify(w.assemble(honest([]hotstuff.ID{signer}, msg), nil, 0), msg)
		x := w.rawSig(signer, msg)
		if len(x) < 4*(q-1)+q {
			return nil
		}
		ps := []piece{{Claim: signer, Src: signer, Msg: msg}}
		rest := x[4*(q-1):]
		chunk := len(rest) / q
		ps[0].Raw = rest[:chunk]
		distinct := map[hotstuff.ID]bool{signer: true}
		for k := 0; k < q-1; k++ {
			id := hotstuff.ID(uint32(x[4*k]) | uint32(x[4*k+1])<<8 | uint32(x[4*k+2])<<16 | uint32(x[4*k+3])<<24)
			distinct[id] = true
			end := chunk * (k + 2)
			if k == q-2 {
				end = len(rest)
			}
			ps = append(ps, piece{Claim: id, Src: signer, Msg: msg, Raw: rest[chunk*(k+1) : end]})
		}
		if len(distinct) != q {
			return nil
		}
		return w.assemble(ps, nil, 0)
	}
	if sig := recut(one, bBytes); sig != nil {
		mut("one-vote-recut-as-quorum", sig, B.View(), B.Hash())
	}
	if scheme != crypto.NameBLS12 {
		mut("repeated-signer-q", w.assemble(rep(one, q, bBytes), nil, 0), B.View(), B.Hash())
		mut("repeated-signer-n", w.assemble(rep(one, n, bBytes), nil, 0), B.View(), B.Hash())
		if q >= 2 {
			ps := append(honest(S[:q-1], bBytes), piece{Claim: S[0], Src: S[0], Msg: bBytes})
			mut("subquorum-padded-duplicate", w.assemble(ps, nil, 0), B.View(), B.Hash())
		}
	} else {
		// BLS: one real signature relabelled with q participants
		var extra []hotstuff.ID
		for _, id := range IDs(n) {
			if id != one && len(extra) < q-1 {
				extra = append(extra, id)
			}
		}
		if q >= 2 {
			mut("single-relabelled-as-quorum", w.assemble(honest([]hotstuff.ID{one}, bBytes), extra, 0), B.View(), B.Hash())
			// q-1 real signatures with one extra bit
			var outsider hotstuff.ID
			for _, id := range IDs(n) {
				in := false
				for _, s := range S[:q-1] {
					if s == id {
						in = true
					}
				}
				if !in {
					outsider = id
					break
				}
			}
			mut("subquorum-extra-bit", w.assemble(honest(S[:q-1], bBytes), []hotstuff.ID{outsider}, 0), B.View(), B.Hash())
			// ... or bits for ids that are not configured at all (next id, next byte): they name nobody, they cannot count
			mut("subquorum-extra-unknown-bit", w.assemble(honest(S[:q-1], bBytes), []hotstuff.ID{hotstuff.ID(n + 1)}, 0), B.View(), B.Hash())
			mut("subquorum-extra-unknown-bits-next-byte", w.assemble(honest(S[:q-1], bBytes), []hotstuff.ID{hotstuff.ID(n + 9), hotstuff.ID(n + 10)}, 0), B.View(), B.Hash())
		}
		mut("trailing-zero-bytes", w.assemble(honest(S, bBytes), nil, 3), B.View(), B.Hash()) // unjudged (same set)
		if len(S) > q {
			// missing bit: aggregate over S but claim only S minus one
			ps := honest(S, bBytes)
			ps[len(ps)-1].Claim = S[0]
			mut("missing-bit", w.assemble(ps, nil, 0), B.View(), B.Hash())
		}
		// point at infinity with an empty / quorum participant set
		inf := make([]byte, 96)
		inf[0] = 0xc0
		if s, err := crypto.RestoreBLS12AggregateSignature(inf, crypto.Bitfield{}); err == nil {
			mut("infinity-empty-set", s, B.View(), B.Hash())
		}
		var bf crypto.Bitfield
		for _, id := range S {
			bf.Add(id)
		}
		if s, err := crypto.RestoreBLS12AggregateSignature(inf, bf); err == nil {
			mut("infinity-quorum-set", s, B.View(), B.Hash())
		}
		// point at infinity claimed by a quorum of ids none of which is configured
		var ubf crypto.Bitfield
		for k := 0; k < q; k++ {
			ubf.Add(hotstuff.ID(n + 1 + k))
		}
		if s, err := crypto.RestoreBLS12AggregateSignature(inf, ubf); err == nil {
			mut("infinity-unknown-quorum", s, B.View(), B.Hash())
		}
	}
	if q >= 2 {
		mut("subquorum", w.assemble(honest(S[:q-1], bBytes), nil, 0), B.View(), B.Hash())
		// unknown signer: q-1 real + one id outside the configuration carrying a member's signature
		ps := append(honest(S[:q-1], bBytes), piece{Claim: hotstuff.ID(n + 1), Src: S[q-1], Msg: bBytes})
		mut("unknown-signer", w.assemble(ps, nil, 0), B.View(), B.Hash())
		if scheme != crypto.NameBLS12 { // a bit field cannot name id 0
			ps = append(honest(S[:q-1], bBytes), piece{Claim: 0, Src: S[q-1], Msg: bBytes})
			mut("signer-id-zero", w.assemble(ps, nil, 0), B.View(), B.Hash())
		}
	}
	if len(S) >= 2 {
		ps := honest(S, bBytes)
		ps[0].Claim, ps[1].Claim = ps[1].Claim, ps[0].Claim
		mut("swapped-ids", w.assemble(ps, nil, 0), B.View(), B.Hash())
	}
	mut("foreign-block-sigs", w.assemble(honest(S, D.ToBytes()), nil, 0), B.View(), B.Hash())
	mut("foreign-view-sigs", w.assemble(honest(S, B.View().ToBytes()), nil, 0), B.View(), B.Hash())
	mut("relabelled-view-up", w.assemble(honest(S, bBytes), nil, 0), B.View()+1, B.Hash())
	mut("relabelled-view-far", w.assemble(honest(S, bBytes), nil, 0), B.View()+1000, B.Hash())
	mut("relabelled-view-plus-2^32", w.assemble(honest(S, bBytes), nil, 0), B.View()+1<<32, B.Hash())
	mut("relabelled-view-zero", w.assemble(honest(S, bBytes), nil, 0), 0, B.Hash())
	mut("relabelled-hash-sibling", w.assemble(honest(S, bBytes), nil, 0), B.View(), D.Hash())
	mut("relabelled-hash-child", w.assemble(honest(S, bBytes), nil, 0), C.View(), C.Hash())
	mut("unknown-block-hash", w.assemble(honest(S, bBytes), nil, 0), B.View(), hotstuff.Hash{1, 2, 3})
	mut("genesis-hash-view-1", nil, 1, gen.Hash())
	mut("genesis-hash-view-far", nil, 1 << 40, gen.Hash())
	mut("genesis-hash-view-with-sig", w.assemble(honest(S, bBytes), nil, 0), B.View(), gen.Hash())
	mut("genesis-canonical", nil, 0, gen.Hash())
	mut("absent-signature", nil, B.View(), B.Hash())
	mut("empty-participants", w.assemble(nil, nil, 0), B.View(), B.Hash())
	{
		ps := honest(S, bBytes)
		raw := w.rawSig(S[0], bBytes)
		ps[0].Raw = raw[:len(raw)/2]
		if scheme != crypto.NameBLS12 {
			mut("truncated-signature", w.assemble(ps, nil, 0), B.View(), B.Hash())
			ps[0].Raw = rng.Bytes(len(raw))
			mut("random-signature-bytes", w.assemble(ps, nil, 0), B.View(), B.Hash())
		}
	}
	if len(S) < n {
		// valid quorum plus one invalid extra entry: the statement takes no side (not judged)
		var outsider hotstuff.ID
		for _, id := range IDs(n) {
			in := false
			for _, s := range S {
				if s == id {
					in = true
				}
			}
			if !in {
				outsider = id
			}
		}
		ps := append(honest(S, bBytes), piece{Claim: outsider, Src: outsider, Msg: D.ToBytes()})
		mut("quorum-plus-invalid-extra", w.assemble(ps, nil, 0), B.View(), B.Hash())
	}

	// ---------------- TC
	tv := hotstuff.View(rng.Range(3, 40))
	T := quorum()
	tvb := tv.ToBytes()
	qcOf := func(id hotstuff.ID) hotstuff.QuorumCert {
		switch int(id) % 3 {
		case 0:
			return genQC
		case 1:
			return qcA
		}
		return qcB
	}
	tms := w.HonestTimeouts(tv, T, qcOf, true)
	if len(T) >= 2 {
		tc, err := w.M(T[0]).Auth.CreateTimeoutCert(tv, tms)
		if err != nil {
			r.Violate(vbase.Sig("cert-create", "type", "TC", "scheme", scheme), fmt.Sprintf("CreateTimeoutCert from %d honest timeouts failed: %v", len(T), err), nil)
		} else {
			present(c02Case{Typ: "TC", Class: "honest", TC: tc}, true)
			for _, tm := range tms {
				_ = warm.Auth.Verify(tm.ViewSignature, tvb)
				_ = warm.Auth.Verify(tm.MsgSignature, tm.ToBytes())
			}
			_ = warm.Auth.VerifyTimeoutCert(tc)
		}
	} else {
		present(c02Case{Typ: "TC", Class: "honest-single", TC: hotstuff.NewTimeoutCert(tms[0].ViewSignature, tv)}, n >= 2)
	}
	mutT := func(class string, sig hotstuff.QuorumSignature, view hotstuff.View) {
		present(c02Case{Typ: "TC", Class: class, TC: hotstuff.NewTimeoutCert(sig, view)}, false)
	}
	if sig := recut(T[0], tvb); sig != nil {
		mutT("one-timeout-recut-as-quorum", sig, tv)
	}
	if scheme != crypto.NameBLS12 {
		mutT("repeated-signer-q", w.assemble(rep(T[0], q, tvb), nil, 0), tv)
	} else if q >= 2 {
		var extra []hotstuff.ID
		for _, id := range IDs(n) {
			if id != T[0] && len(extra) < q-1 {
				extra = append(extra, id)
			}
		}
		mutT("single-relabelled-as-quorum", w.assemble(honest([]hotstuff.ID{T[0]}, tvb), extra, 0), tv)
		mutT("subquorum-extra-unknown-bit", w.assemble(honest(T[:q-1], tvb), []hotstuff.ID{hotstuff.ID(n + 1)}, 0), tv)
		inf := make([]byte, 96)
		inf[0] = 0xc0
		var ubf crypto.Bitfield
		for k := 0; k < q; k++ {
			ubf.Add(hotstuff.ID(n + 1 + k))
		}
		if s, err := crypto.RestoreBLS12AggregateSignature(inf, ubf); err == nil {
			mutT("infinity-unknown-quorum", s, tv)
		}
	}
	if q >= 2 {
		mutT("subquorum", w.assemble(honest(T[:q-1], tvb), nil, 0), tv)
		ps := append(honest(T[:q-1], tvb), piece{Claim: hotstuff.ID(n + 1), Src: T[q-1], Msg: tvb})
		mutT("unknown-signer", w.assemble(ps, nil, 0), tv)
		// mixed views: q-1 signatures for tv and one for another view
		ps = append(honest(T[:q-1], tvb), piece{Claim: T[q-1], Src: T[q-1], Msg: (tv + 1).ToBytes()})
		mutT("mixed-views", w.assemble(ps, nil, 0), tv)
	}
	mutT("relabelled-view-up", w.assemble(honest(T, tvb), nil, 0), tv+1)
	mutT("relabelled-view-far", w.assemble(honest(T, tvb), nil, 0), tv+1<<40)
	// views that agree in their low bits: 2^8, 2^16, 2^32, 2^48 and 2^63 away (a truncating view encoding would sign them alike)
	for _, sh := range []uint{8, 16, 32, 48, 63} {
		mutT(fmt.Sprintf("relabelled-view-plus-2^%d", sh), w.assemble(honest(T, tvb), nil, 0), tv+hotstuff.View(1)<<sh)
	}
	mutT("foreign-message-sigs", w.assemble(honest(T, bBytes), nil, 0), tv)
	mutT("view-zero-canonical", nil, 0)
	mutT("absent-signature", nil, tv)
	mutT("empty-participants", w.assemble(nil, nil, 0), tv)
	if len(T) >= 2 {
		ps := honest(T, tvb)
		ps[0].Claim, ps[1].Claim = ps[1].Claim, ps[0].Claim
		mutT("swapped-ids", w.assemble(ps, nil, 0), tv)
	}

	// ---------------- AggQC
	msgOf := func(id hotstuff.ID, view hotstuff.View, qc hotstuff.QuorumCert) []byte {
		return hotstuff.TimeoutMsg{ID: id, View: view, SyncInfo: hotstuff.NewSyncInfoWith(qc)}.ToBytes()
	}
	aggPieces := func(ids []hotstuff.ID, view hotstuff.View, qcs map[hotstuff.ID]hotstuff.QuorumCert) []piece {
		var ps []piece
		for _, id := range ids {
			ps = append(ps, piece{Claim: id, Src: id, Msg: msgOf(id, view, qcs[id])})
		}
		return ps
	}
	qcsHonest := map[hotstuff.ID]hotstuff.QuorumCert{}
	for _, id := range T {
		qcsHonest[id] = qcOf(id)
	}
	if len(T) >= 2 {
		agg, err := w.M(T[0]).Auth.CreateAggregateQC(tv, tms)
		if err != nil {
			r.Violate(vbase.Sig("cert-create", "type", "AggQC", "scheme", scheme), fmt.Sprintf("CreateAggregateQC from %d honest timeouts failed: %v", len(T), err), nil)
		} else {
			present(c02Case{Typ: "AggQC", Class: "honest", Agg: agg}, true)
			_, _ = warm.Auth.VerifyAggregateQC(agg)
			// a proposal justified by this aggregate QC (VerifyAnyQC): the block's own QC must be a valid certificate too - a copy
			// of the aggregate's high QC with the same view, hash and signature BYTES but other claimed signers is not
			if _, _, best := w.TrueAggQC(agg); best != nil && best.Signature() != nil {
				if tgt, ok := w.Blocks.Get(best.BlockHash()); ok {
					parts := Decompose(best.Signature())
					variants := map[string]hotstuff.QuorumSignature{}
					if len(parts.Signers) >= 2 {
						var ps []piece
						for i, id := range parts.Signers {
							claim := id
							if i == 0 {
								claim = parts.Signers[1]
							} else if i == 1 {
								claim = parts.Signers[0]
							}
							ps = append(ps, piece{Claim: claim, Src: id, Msg: tgt.ToBytes()})
						}
						if scheme != crypto.NameBLS12 {
							variants["anyqc-swapped-ids"] = w.assemble(ps, nil, 0)
						}
						// one signer's label replaced by a replica that did not sign (same signature material)
						var outsider hotstuff.ID
						in := map[hotstuff.ID]bool{}
						for _, id := range parts.Signers {
							in[id] = true
						}
						for _, id := range append(IDs(n), hotstuff.ID(n+1)) {
							if !in[id] && outsider == 0 {
								outsider = id
							}
						}
						ps2 := honest(parts.Signers, tgt.ToBytes())
						ps2[0].Claim = outsider
						variants["anyqc-relabelled-signer"] = w.assemble(ps2, nil, 0)
					}
					for class, vs := range variants {
						fq := hotstuff.NewQuorumCert(vs, best.View(), best.BlockHash())
						if verd, _ := w.TrueQC(fq); verd != MustReject {
							continue
						}
						blk := hotstuff.NewBlock(best.BlockHash(), fq, Batch(9, 1, 1), tv+1, T[0])
						for _, m := range []*Member{warm, cold} {
							err := m.Auth.VerifyAnyQC(&hotstuff.ProposeMsg{ID: T[0], Block: blk, AggregateQC: &agg})
							r.Eval(true, fmt.Sprintf("%s/%d/%d/%s/%d", scheme, cache, n, class, m.ID))
							r.Obs("anyqc_presented", 1)
							if err == nil {
								r.Violate(vbase.Sig("cert-sound", "type", "AnyQC", "class", class, "scheme", scheme, "cache", cacheTag),
									fmt.Sprintf("VerifyAnyQC accepted a proposal whose block QC has the view, hash and signature bytes of the aggregate's high QC but claims other signers (%s, n=%d, cache %d)", class, n, cache),
									map[string]any{"scheme": scheme, "cache": cache, "n": n, "class": class})
							}
						}
					}
				}
			}
		}
	}
	mutA := func(class string, qcs map[hotstuff.ID]hotstuff.QuorumCert, sig hotstuff.QuorumSignature, view hotstuff.View) {
		present(c02Case{Typ: "AggQC", Class: class, Agg: hotstuff.NewAggregateQC(qcs, sig, view)}, false)
	}
	clone := func(m map[hotstuff.ID]hotstuff.QuorumCert) map[hotstuff.ID]hotstuff.QuorumCert {
		o := map[hotstuff.ID]hotstuff.QuorumCert{}
		for k, v := range m {
			o[k] = v
		}
		return o
	}
	honestAggSig := w.assemble(aggPieces(T, tv, qcsHonest), nil, 0)
	mutA("rebuilt-honest", qcsHonest, honestAggSig, tv) // unjudged unless rejected... (must-accept is asserted only for Create*)
	mutA("relabelled-view-up", qcsHonest, honestAggSig, tv+1)
	mutA("relabelled-view-down", qcsHonest, honestAggSig, tv-1)
	for _, sh := range []uint{8, 16, 32, 48, 63} {
		mutA(fmt.Sprintf("relabelled-view-plus-2^%d", sh), qcsHonest, honestAggSig, tv+hotstuff.View(1)<<sh)
	}
	if scheme == crypto.NameBLS12 && q >= 2 {
		// fewer than a quorum of genuine timeout messages (k = 1 .. q-1), their genuine aggregate, and a participant field
		// that claims a quorum: the real signers plus replicas that have no entry in the QC map
		for _, k := range []int{1, q - 1} {
			if k < 1 || k > len(T) {
				continue
			}
			sub := T[:k]
			qs := map[hotstuff.ID]hotstuff.QuorumCert{}
			for _, id := range sub {
				qs[id] = qcOf(id)
			}
			if pa := Decompose(w.assemble(aggPieces(sub, tv, qs), nil, 0)); pa.Kind == crypto.NameBLS12 {
				var bf crypto.Bitfield
				for _, id := range sub {
					bf.Add(id)
				}
				for _, id := range IDs(n) {
					if bf.Len() >= q {
						break
					}
					if !bf.Contains(id) {
						bf.Add(id)
					}
				}
				if rs, err := crypto.RestoreBLS12AggregateSignature(pa.Agg, bf); err == nil && bf.Len() >= q {
					present(c02Case{Typ: "AggQC", Class: fmt.Sprintf("bls-subquorum-%d-entries-claiming-a-quorum", k), Agg: hotstuff.NewAggregateQC(qs, rs, tv)}, false)
				}
			}
		}
	}
	if scheme == crypto.NameBLS12 && len(T) >= 2 {
		// the participant labels of a BLS aggregate are not what is verified (the keys come from the QC map): relabel them, same
		// count, swapping out each signer in turn (in particular the one that attests the highest QC) for a replica that did not
		// sign. Whether such a certificate is accepted is not judged - a quorum did sign - but the reported high QC must not change.
		if pa := Decompose(honestAggSig); pa.Kind == crypto.NameBLS12 {
			in := map[hotstuff.ID]bool{}
			for _, id := range T {
				in[id] = true
			}
			outsider := hotstuff.ID(n + 1)
			for _, id := range IDs(n) {
				if !in[id] {
					outsider = id
					break
				}
			}
			for _, drop := range T {
				var bf crypto.Bitfield
				for _, id := range T {
					if id != drop {
						bf.Add(id)
					}
				}
				bf.Add(outsider)
				if rs, err := crypto.RestoreBLS12AggregateSignature(pa.Agg, bf); err == nil {
					mutA("bls-participant-labels-swapped", qcsHonest, rs, tv)
				}
			}
		}
	}
	if q >= 2 {
		sub := T[:q-1]
		qs := map[hotstuff.ID]hotstuff.QuorumCert{}
		for _, id := range sub {
			qs[id] = qcOf(id)
		}
		mutA("subquorum", qs, w.assemble(aggPieces(sub, tv, qs), nil, 0), tv)
	}
	if scheme != crypto.NameBLS12 {
		qs := map[hotstuff.ID]hotstuff.QuorumCert{T[0]: qcOf(T[0])}
		mutA("repeated-signer-q", qs, w.assemble(rep(T[0], q, msgOf(T[0], tv, qcOf(T[0]))), nil, 0), tv)
	}
	{
		// one signer's QC replaced by a higher one it never attested
		qs := clone(qcsHonest)
		qs[T[0]] = mkQC(C, quorum())
		mutA("swapped-in-higher-qc", qs, honestAggSig, tv)
		// one signer's QC replaced by a lower one
		qs = clone(qcsHonest)
		qs[T[len(T)-1]] = genQC
		mutA("swapped-in-lower-qc", qs, honestAggSig, tv)
		// an entry dropped
		qs = clone(qcsHonest)
		delete(qs, T[0])
		mutA("dropped-entry", qs, honestAggSig, tv)
		// an extra entry for a non-signer
		if len(T) < n {
			for _, id := range IDs(n) {
				if _, ok := qs[id]; !ok && id != T[0] {
					qs = clone(qcsHonest)
					qs[id] = mkQC(C, quorum())
					mutA("extra-entry-nonsigner", qs, honestAggSig, tv)
					break
				}
			}
		}
		// honestly signed timeouts whose attested QC is itself forged (relabelled view): the signers really signed it,
		// so the aggregate signature is genuine; the high QC must still be the highest VALID one.
		forged := hotstuff.NewQuorumCert(qcB.Signature(), qcB.View()+5, qcB.BlockHash())
		qs = clone(qcsHonest)
		liar := T[0]
		qs[liar] = forged
		mutA("signer-attests-relabelled-qc", qs, w.assemble(aggPieces(T, tv, qs), nil, 0), tv)
		// ... or a sub-quorum QC
		if q >= 2 {
			qs = clone(qcsHonest)
			qs[liar] = hotstuff.NewQuorumCert(w.assemble(honest(SA[:min(len(SA), q-1)], C.ToBytes()), nil, 0), C.View(), C.Hash())
			mutA("signer-attests-subquorum-qc", qs, w.assemble(aggPieces(T, tv, qs), nil, 0), tv)
		}
		// ... or an INVALID certificate that names the same view and block as the best valid QC another signer attests:
		// whatever order the entries are examined in, the valid copy must still be found
		if q >= 2 && len(T) >= 2 {
			var holder, liar2 hotstuff.ID
			for _, id := range T {
				if qcOf(id).BlockHash() == qcB.BlockHash() && holder == 0 {
					holder = id
				}
			}
			for _, id := range T {
				if id != holder {
					liar2 = id
				}
			}
			if holder != 0 && liar2 != 0 {
				qs = clone(qcsHonest)
				qs[liar2] = hotstuff.NewQuorumCert(w.assemble(honest(SB[:min(len(SB), q-1)], B.ToBytes()), nil, 0), qcB.View(), qcB.BlockHash())
				mutA("signer-attests-invalid-twin-of-best-qc", qs, w.assemble(aggPieces(T, tv, qs), nil, 0), tv)
			}
		}
		// messages signed for another view
		mutA("foreign-view-messages", qcsHonest, w.assemble(aggPieces(T, tv+1, qcsHonest), nil, 0), tv)
		mutA("empty-participants", qcsHonest, w.assemble(nil, nil, 0), tv)
		mutA("absent-signature", qcsHonest, nil, tv)
	}
}
