package vk

import (
	"fmt"
	"math/big"

	bls12 "github.com/kilic/bls12-381"
	"github.com/relab/hotstuff"
	"github.com/relab/hotstuff/core"
	"github.com/relab/hotstuff/security/crypto"
	"github.com/relab/hotstuff/verif/vbase"
)

func init() {
	Register("C02.roguekey", c02RogueKey)
}

const (
	blsPopKey    = "bls12-pop-bin"
	blsSigDomain = "BLS_SIG_BLS12381G2_XMD:SHA-256_SSWU_RO_POP_"
	blsPopDomain = "BLS_POP_BLS12381G2_XMD:SHA-256_SSWU_RO_POP_"
)

// c02RogueKey: key-registration adversary for BLS12-381. One Byzantine replica registers a public key of its
// choice (the rogue key x*G1 - sum of the victims' keys, for which it can compute "aggregate signatures" of
// victims+itself over anything) together with a proof-of-possession of its choice (a copy of an honest replica's
// proof, its own proof for another key, garbage, nothing). None of the victims signs the certified content, so the
// ground truth says every such certificate must be rejected, by every honest verifier, at every presentation:
// first sight, after the verifier processed honest certificates of the proof's owner, again, with cache on and off.
func c02RogueKey(p vbase.Params, r *vbase.Result) {
	r.Rule = "bls12 x cache{0,10} x n in {4,5,7,10,13} x Byzantine id x victim set (q-1 honest ids) x presented proof {copy of a victim with a lower id, copy of a victim with a higher id, " +
		"copy of an honest non-victim, own proof for x*G1, own proof of its original key, garbage, absent} x certificate {QC,TC} x verifier (every honest replica) x " +
		"presentation schedule {first sight, after an honest QC/TC signed by the proof's owner, repeated}; oracle: the sign log shows that no victim signed the content => must reject; " +
		"honest certificates of the same verifier keep verifying; non-trivial: well-formed copied proof; distinct: (cache,n,byz,pop kind,cert,verifier,schedule step)"
	reps := p.N(2, 40)
	idx := 0
	for _, cache := range []uint{0, 10} {
		for _, n := range []int{4, 5, 7, 10, 13} {
			for rep := 0; rep < reps; rep++ {
				idx++
				if !p.Mine(idx) {
					continue
				}
				rng := vbase.NewRng(p.Seed, "c02rogue", fmt.Sprint(cache), fmt.Sprint(n), fmt.Sprint(rep))
				c02RogueCell(r, rng, cache, n)
			}
		}
	}
}

func blsG1Of(pk hotstuff.PublicKey) *bls12.PointG1 {
	pt, err := bls12.NewG1().FromCompressed(pk.(*crypto.BLS12PublicKey).ToBytes())
	if err != nil {
		panic(err)
	}
	return pt
}

func c02RogueCell(r *vbase.Result, rng *vbase.Rng, cache uint, n int) {
	w := NewWorld(n, "bls12", cache, core.WithAggregateQC())
	q := w.Q()
	byz := hotstuff.ID(1 + rng.Intn(n))
	var honest []hotstuff.ID
	for _, id := range IDs(n) {
		if id != byz {
			honest = append(honest, id)
		}
	}
	// victims: q-1 honest ids (PRNG subset)
	perm := rng.Perm(len(honest))
	var victims []hotstuff.ID
	for _, i := range perm[:q-1] {
		victims = append(victims, honest[i])
	}
	isVictim := map[hotstuff.ID]bool{}
	for _, v := range victims {
		isVictim[v] = true
	}
	// rogue key
	g1 := bls12.NewG1()
	x := new(big.Int).SetUint64(rng.Uint64() | 1)
	x.Lsh(x, 64).Or(x, new(big.Int).SetUint64(rng.Uint64()))
	acc := &bls12.PointG1{}
	g1.MulScalarBig(acc, g1.One(), x)
	for _, v := range victims {
		g1.Sub(acc, acc, blsG1Of(w.Keys[v].Public()))
	}
	rogue := &crypto.BLS12PublicKey{}
	if err := rogue.FromBytes(g1.ToCompressed(acc)); err != nil {
		panic(err)
	}
	forge := func(msg []byte) hotstuff.QuorumSignature {
		g2 := bls12.NewG2()
		pt, err := g2.HashToCurve(msg, []byte(blsSigDomain))
		if err != nil {
			panic(err)
		}
		g2.MulScalarBig(pt, pt, x)
		var bf crypto.Bitfield
		for _, id := range victims {
			bf.Add(id)
		}
		bf.Add(byz)
		s, err := crypto.RestoreBLS12AggregateSignature(g2.ToCompressed(pt), bf)
		if err != nil {
			panic(err)
		}
		return s
	}
	popOf := func(id hotstuff.ID) string { return w.M(id).Cfg.ConnectionMetadata()[blsPopKey] }
	// proofs the Byzantine replica may present
	type popChoice struct {
		kind  string
		owner hotstuff.ID // honest owner of a copied proof, 0 otherwise
		meta  map[string]string
	}
	var pops []popChoice
	var lower, higher, outside hotstuff.ID
	for _, v := range victims {
		if v < byz && (lower == 0 || rng.Intn(2) == 0) {
			lower = v
		}
		if v > byz && (higher == 0 || rng.Intn(2) == 0) {
			higher = v
		}
	}
	for _, h := range honest {
		if !isVictim[h] && (outside == 0 || rng.Intn(2) == 0) {
			outside = h
		}
	}
	if lower != 0 {
		pops = append(pops, popChoice{"copy-victim-lower-id", lower, map[string]string{blsPopKey: popOf(lower)}})
	}
	if higher != 0 {
		pops = append(pops, popChoice{"copy-victim-higher-id", higher, map[string]string{blsPopKey: popOf(higher)}})
	}
	if outside != 0 {
		pops = append(pops, popChoice{"copy-honest-non-victim", outside, map[string]string{blsPopKey: popOf(outside)}})
	}
	{
		// a genuine proof for the key x*G1 (which the attacker does own)
		g2 := bls12.NewG2()
		xg := &bls12.PointG1{}
		g1.MulScalarBig(xg, g1.One(), x)
		pt, err := g2.HashToCurve(g1.ToCompressed(xg), []byte(blsPopDomain))
		if err != nil {
			panic(err)
		}
		g2.MulScalarBig(pt, pt, x)
		pops = append(pops, popChoice{"own-proof-for-xG1", 0, map[string]string{blsPopKey: string(g2.ToCompressed(pt))}})
	}
	pops = append(pops, popChoice{"own-proof-of-original-key", 0, map[string]string{blsPopKey: popOf(byz)}})
	pops = append(pops, popChoice{"garbage", 0, map[string]string{blsPopKey: string(rng.Bytes(96))}})
	pops = append(pops, popChoice{"absent", 0, map[string]string{}})

	blk := hotstuff.NewBlock(hotstuff.GetGenesis().Hash(), hotstuff.NewQuorumCert(nil, 0, hotstuff.GetGenesis().Hash()), Batch(666, 1, 1), hotstuff.View(2+rng.Intn(5)), byz)
	hblk := hotstuff.NewBlock(hotstuff.GetGenesis().Hash(), hotstuff.NewQuorumCert(nil, 0, hotstuff.GetGenesis().Hash()), Batch(1, 1, 1), 1, honest[0])
	w.StoreAll(blk)
	w.StoreAll(hblk)
	tcView := hotstuff.View(7 + rng.Intn(5))
	forgedQC := hotstuff.NewQuorumCert(forge(blk.ToBytes()), blk.View(), blk.Hash())
	forgedTC := hotstuff.NewTimeoutCert(forge(tcView.ToBytes()), tcView)
	// ground truth: who signed these contents? nobody among the victims.
	for _, v := range victims {
		if w.Log.Signed(v, blk.ToBytes()) || w.Log.Signed(v, tcView.ToBytes()) {
			panic("harness: victim signed the forged content")
		}
	}

	for _, pc := range pops {
		// the Byzantine replica (re)connects with this key and proof at every honest replica
		for _, h := range honest {
			w.M(h).Cfg.AddReplica(&hotstuff.ReplicaInfo{ID: byz, PubKey: rogue, Metadata: pc.meta})
		}
		present := func(step string) {
			for _, h := range honest {
				m := w.M(h)
				for _, c := range []struct {
					typ string
					f   func() error
				}{
					{"QC", func() error { return m.Auth.VerifyQuorumCert(forgedQC) }},
					{"TC", func() error { return m.Auth.VerifyTimeoutCert(forgedTC) }},
				} {
					err := c.f()
					r.Eval(pc.owner != 0, fmt.Sprintf("%d/%d/%d/%s/%s/%d/%s", cache, n, byz, pc.kind, c.typ, h, step))
					r.Obs("forged_presented", 1)
					if err == nil {
						r.Violate(vbase.Sig("cert-sound", "class", "rogue-key-"+pc.kind, "type", c.typ, "scheme", "bls12", "cache", fmt.Sprint(cache > 0)),
							fmt.Sprintf("replica %d accepted a %s (n=%d, cache %d) naming signers %v+%d: replica %d registered the key x*G1-sum(victim keys) with proof '%s'; "+
								"no victim signed the content (sign log); presentation: %s", h, c.typ, n, cache, victims, byz, byz, pc.kind, step),
							map[string]any{"n": n, "cache": cache, "byz": byz, "victims": victims, "pop": pc.kind, "owner": pc.owner, "verifier": h, "step": step})
					} else {
						r.Obs("forged_rejected", 1)
					}
				}
			}
		}
		present("first-sight")
		// honest traffic: certificates signed by quorums that contain the proof's owner (and by other quorums)
		for round := 0; round < 2; round++ {
			var signers []hotstuff.ID
			if pc.owner != 0 {
				signers = append(signers, pc.owner)
			}
			for _, i := range rng.Perm(len(honest)) {
				if len(signers) >= q {
					break
				}
				if honest[i] != pc.owner {
					signers = append(signers, honest[i])
				}
			}
			if len(signers) < q {
				break // n with f=0 byz: cannot happen for n>=4
			}
			hqc, _, herr := w.HonestQC(hblk, signers)
			if herr != nil {
				panic(herr)
			}
			for _, h := range honest {
				err := w.M(h).Auth.VerifyQuorumCert(hqc)
				r.Obs("honest_presented", 1)
				if err != nil {
					if w.LibraryDefect(hqc.Signature(), func(hotstuff.ID) []byte { return hblk.ToBytes() }) {
						r.Obs("bls_library_defect_cases_skipped", 1)
						continue
					}
					r.Violate(vbase.Sig("cert-complete", "class", "honest-beside-rogue-key", "scheme", "bls12"),
						fmt.Sprintf("replica %d rejects an honest QC of %v while replica %d is registered with a rogue key (%s): %v", h, signers, byz, pc.kind, err),
						map[string]any{"n": n, "cache": cache, "byz": byz, "signers": signers, "pop": pc.kind})
				}
			}
			present(fmt.Sprintf("after-honest-%d", round+1))
		}
		if r.WantSample() {
			r.Sample(map[string]any{"n": n, "cache": cache, "byz": byz, "victims": victims, "pop": pc.kind, "pop_owner": pc.owner})
		}
	}
}
