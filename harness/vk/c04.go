package vk

import (
	"github.com/relab/hotstuff/security/crypto"
	"github.com/relab/hotstuff/security/cert"
	"github.com/relab/hotstuff/protocol"
	"fmt"
	"sort"

	"github.com/relab/hotstuff"
	"github.com/relab/hotstuff/core"
	"github.com/relab/hotstuff/core/eventloop"
	"github.com/relab/hotstuff/protocol/consensus"
	"github.com/relab/hotstuff/protocol/rules"
	"github.com/relab/hotstuff/security/blockchain"
	"github.com/relab/hotstuff/verif/vbase"
)

func init() {
	Register("C04.exhaustive", c04Exhaustive)
	Register("C04.random", c04Random)
}

// ---- abstract forest (reference side)

type aBlock struct {
	ID       int  `json:"id"`
	Parent   int  `json:"parent"` // -1 for genesis
	QC       int  `json:"qc"`     // -1 for genesis
	View     int  `json:"view"`
	Withheld bool `json:"withheld,omitempty"`
}

type aForest struct {
	Blocks []aBlock `json:"blocks"` // Blocks[0] is genesis
	Served bool     `json:"served"` // withheld blocks can be fetched from peers
}

// refRules is the reference implementation of the three published rule sets on the
// abstract forest. Written from the papers: HotStuff (PODC'19) Alg. 4/5 with this
// implementation's documented consecutive-view requirement (no dummy blocks),
// Fast-HotStuff (two-chain; vote: view = qc.view+1, or extends the high QC under an
// aggregate QC), and Jehl's simplified HotStuff (lock on the grandparent; commit the
// great-grandparent when its view + 2 equals the parent's view).
type refRules struct {
	f    *aForest
	have map[int]bool // obtainable: presented so far, or withheld-but-served
	lock int
	kind string
}

func newRef(f *aForest, kind string) *refRules {
	r := &refRules{f: f, have: map[int]bool{0: true}, kind: kind}
	if f.Served {
		for _, b := range f.Blocks {
			if b.Withheld {
				r.have[b.ID] = true
			}
		}
	}
	return r
}

func (r *refRules) get(id int) (aBlock, bool) {
	if id < 0 || !r.have[id] {
		return aBlock{}, false
	}
	return r.f.Blocks[id], true
}

// onChain: target is b itself or lies on b's parent chain, following obtainable blocks only.
func (r *refRules) onChain(b aBlock, target int) bool {
	cur := b
	for {
		if cur.ID == target {
			return true
		}
		nxt, ok := r.get(cur.Parent)
		if !ok {
			return false
		}
		cur = nxt
	}
}

func (r *refRules) commit(b aBlock) int {
	switch r.kind {
	case rules.NameChainedHotStuff:
		b1, ok := r.get(b.QC)
		if !ok {
			return -1
		}
		b2, ok := r.get(b1.QC)
		if !ok {
			return -1
		}
		if b2.View > r.f.Blocks[r.lock].View {
			r.lock = b2.ID
		}
		b3, ok := r.get(b2.QC)
		if !ok {
			return -1
		}
		// three-chain of direct parents with consecutive views
		if b1.Parent == b2.ID && b2.Parent == b3.ID && b1.View == b2.View+1 && b2.View == b3.View+1 {
			return b3.ID
		}
		return -1
	case rules.NameFastHotStuff:
		p, ok := r.get(b.QC)
		if !ok {
			return -1
		}
		gp, ok := r.get(p.QC)
		if !ok {
			return -1
		}
		if b.Parent == p.ID && p.Parent == gp.ID && b.View == p.View+1 && p.View == gp.View+1 {
			return gp.ID
		}
		return -1
	case rules.NameSimpleHotStuff:
		p, ok := r.get(b.QC)
		if !ok {
			return -1
		}
		gp, ok := r.get(p.QC)
		if !ok {
			return -1
		}
		if gp.View > r.f.Blocks[r.lock].View {
			r.lock = gp.ID
		}
		ggp, ok := r.get(gp.QC)
		if ok && ggp.View+2 == p.View {
			return ggp.ID
		}
		return -1
	}
	panic("kind")
}

func (r *refRules) vote(curView int, b aBlock, withAgg bool) bool {
	switch r.kind {
	case rules.NameChainedHotStuff:
		qcb, ok := r.get(b.QC)
		if ok && qcb.View > r.f.Blocks[r.lock].View {
			return true // liveness rule
		}
		return r.onChain(b, r.lock) // safety rule
	case rules.NameFastHotStuff:
		if withAgg {
			if _, ok := r.get(b.QC); !ok {
				return false
			}
			return r.onChain(b, b.QC)
		}
		if b.QC < 0 {
			return false
		}
		return b.View >= curView && b.View == r.f.Blocks[b.QC].View+1
	case rules.NameSimpleHotStuff:
		if b.View < curView {
			return false
		}
		p, ok := r.get(b.QC)
		if !ok {
			return false
		}
		return p.View >= r.f.Blocks[r.lock].View
	}
	panic("kind")
}

// ---- real side

type realForest struct {
	blocks []*hotstuff.Block
	byHash map[hotstuff.Hash]int
}

func buildReal(f *aForest) *realForest {
	rf := &realForest{blocks: make([]*hotstuff.Block, len(f.Blocks)), byHash: map[hotstuff.Hash]int{}}
	rf.blocks[0] = hotstuff.GetGenesis()
	rf.byHash[rf.blocks[0].Hash()] = 0
	order := make([]int, 0, len(f.Blocks)-1)
	for i := 1; i < len(f.Blocks); i++ {
		order = append(order, i)
	}
	sort.SliceStable(order, func(i, j int) bool { return f.Blocks[order[i]].View < f.Blocks[order[j]].View })
	for _, i := range order {
		b := f.Blocks[i]
		qcb := rf.blocks[b.QC]
		qc := hotstuff.NewQuorumCert(nil, qcb.View(), qcb.Hash())
		blk := hotstuff.NewBlock(rf.blocks[b.Parent].Hash(), qc, Batch(uint32(i), 1, 1), hotstuff.View(b.View), hotstuff.ID(1+i%4))
		rf.blocks[i] = blk
		rf.byHash[blk.Hash()] = i
	}
	return rf
}

var c04Kinds = []string{rules.NameChainedHotStuff, rules.NameFastHotStuff, rules.NameSimpleHotStuff}

func newRuleset(kind string, logger *CapLogger, cfg *core.RuntimeConfig, chain *blockchain.Blockchain) consensus.Ruleset {
	switch kind {
	case rules.NameChainedHotStuff:
		return rules.NewChainedHotStuff(logger, cfg, chain)
	case rules.NameFastHotStuff:
		return rules.NewFastHotStuff(logger, cfg, chain)
	case rules.NameSimpleHotStuff:
		return rules.NewSimpleHotStuff(logger, cfg, chain)
	}
	panic("kind")
}

func peekLock(rs consensus.Ruleset) (*hotstuff.Block, bool, bool) {
	switch x := rs.(type) {
	case *rules.ChainedHotStuff:
		p, ok := Peek[*hotstuff.Block](x, "bLock")
		if !ok {
			return nil, false, true
		}
		return *p, true, true
	case *rules.SimpleHotStuff:
		p, ok := Peek[*hotstuff.Block](x, "locked")
		if !ok {
			return nil, false, true
		}
		return *p, true, true
	}
	return nil, false, false // ruleset has no lock
}

var c04Logger = NewCapLogger("c04", 0)

// c04Run presents the forest in the given order to the real ruleset and the
// reference, comparing every decision. probeAll: call VoteRule for every block
// of the forest before each presentation (small forests), else for a few.
func c04Run(r *vbase.Result, f *aForest, rf *realForest, order []int, kind string, probeAll bool, rng *vbase.Rng) bool {
	return c04RunMode(r, f, rf, order, kind, probeAll, rng, false)
}

// c04RunMode with viaCommitter presents every block through the real Committer.TryCommit (store, commit rule, commit of
// the ancestors) on a replica that can obtain EVERY block of the forest through block requests - so blocks presented out of
// order have been fetched before their own presentation - and additionally compares the committed block.
func c04RunMode(r *vbase.Result, f *aForest, rf *realForest, order []int, kind string, probeAll bool, rng *vbase.Rng, viaCommitter bool) bool {
	cfg := core.NewRuntimeConfig(1, nil, core.WithAggregateQC())
	el := eventloop.New(c04Logger, 16)
	snd := &StubSender{ID: 1}
	if f.Served {
		snd.Fetch = func(h hotstuff.Hash) (*hotstuff.Block, bool) {
			if i, ok := rf.byHash[h]; ok && f.Blocks[i].Withheld {
				return rf.blocks[i], true
			}
			return nil, false
		}
	}
	chain := blockchain.New(el, c04Logger, snd)
	var cm *consensus.Committer
	var vs *protocol.ViewStates
	if viaCommitter {
		w := NewWorld(1, crypto.NameEDDSA, 0, core.WithAggregateQC())
		m := w.M(1)
		m.Sender.Fetch = func(h hotstuff.Hash) (*hotstuff.Block, bool) {
			if i, ok := rf.byHash[h]; ok {
				return rf.blocks[i], true
			}
			return nil, false
		}
		cfg, chain = m.Cfg, m.Chain
	}
	rs := newRuleset(kind, c04Logger, cfg, chain)
	ref := newRef(f, kind)
	expCommitted := 0
	if viaCommitter {
		for _, b := range f.Blocks {
			ref.have[b.ID] = true
		}
		w1 := chain
		var err error
		vs, err = protocol.NewViewStates(w1, cert.NewAuthority(cfg, w1, nil))
		if err != nil {
			panic(err)
		}
		cm = consensus.NewCommitter(eventloop.New(c04Logger, 64), c04Logger, chain, vs, rs)
	}
	fail := func(rule, msg string, step int) bool {
		r.Violate(vbase.Sig("rules-"+rule, "ruleset", kind), fmt.Sprintf("%s: forest=%+v order=%v step=%d: %s", kind, f.Blocks, order, step, msg),
			map[string]any{"ruleset": kind, "forest": f, "order": order, "step": step})
		return false
	}
	aggDummy := &hotstuff.AggregateQC{}
	for step, id := range order {
		ab := f.Blocks[id]
		// vote probes (before the block is stored, as the voter does)
		probes := []int{id}
		if probeAll {
			probes = probes[:0]
			for i := 1; i < len(f.Blocks); i++ {
				probes = append(probes, i)
			}
		} else if rng != nil {
			probes = append(probes, 1+rng.Intn(len(f.Blocks)-1), 1+rng.Intn(len(f.Blocks)-1))
		}
		for _, pid := range probes {
			pb := f.Blocks[pid]
			for _, cv := range []int{pb.View, pb.View + 1} {
				aggs := []bool{false}
				if kind == rules.NameFastHotStuff {
					aggs = []bool{false, true}
				}
				for _, agg := range aggs {
					msg := hotstuff.ProposeMsg{ID: rf.blocks[pid].Proposer(), Block: rf.blocks[pid]}
					if agg {
						msg.AggregateQC = aggDummy
					}
					got := rs.VoteRule(hotstuff.View(cv), msg)
					want := ref.vote(cv, pb, agg)
					r.Obs("vote_decisions", 1)
					if got {
						r.Obs("vote_true", 1)
					}
					if got != want {
						return fail("vote", fmt.Sprintf("VoteRule(view=%d, block %d, aggQC=%v)=%v, published rule says %v (lock=%d)", cv, pid, agg, got, want, ref.lock), step)
					}
				}
			}
		}
		if viaCommitter {
			_ = cm.TryCommit(rf.blocks[id])
			want := ref.commit(ab)
			r.Obs("commit_decisions_via_committer", 1)
			if want > 0 && f.Blocks[want].View > f.Blocks[expCommitted].View {
				expCommitted = want
			}
			if got := vs.CommittedBlock(); got.Hash() != rf.blocks[expCommitted].Hash() {
				gi := rf.byHash[got.Hash()]
				return fail("committed", fmt.Sprintf("after TryCommit(block %d) the committed block is %d, the published rule says %d", id, gi, expCommitted), step)
			}
			if lk, ok, has := peekLock(rs); has && ok {
				if li, known := rf.byHash[lk.Hash()]; !known || li != ref.lock {
					return fail("lock", fmt.Sprintf("after TryCommit(block %d) lock=%d, published rule says %d", id, li, ref.lock), step)
				}
			}
			continue
		}
		chain.Store(rf.blocks[id])
		ref.have[id] = true
		got := rs.CommitRule(rf.blocks[id])
		want := ref.commit(ab)
		r.Obs("commit_decisions", 1)
		gotID := -1
		if got != nil {
			var ok bool
			gotID, ok = rf.byHash[got.Hash()]
			if !ok {
				return fail("commit-unknown", fmt.Sprintf("CommitRule(block %d) returned a block outside the forest", id), step)
			}
			r.Obs("commit_nonnil", 1)
		}
		if gotID != want {
			return fail("commit", fmt.Sprintf("CommitRule(block %d)=%d, published rule says %d", id, gotID, want), step)
		}
		if lk, ok, has := peekLock(rs); has {
			if !ok {
				r.Note("lock field not readable by Peek for %s: lock compared only through later vote decisions", kind)
			} else {
				li, known := rf.byHash[lk.Hash()]
				if !known || li != ref.lock {
					return fail("lock", fmt.Sprintf("after CommitRule(block %d) lock=%d, published rule says %d", id, li, ref.lock), step)
				}
				if ref.lock != 0 {
					r.Obs("lock_nongenesis_states", 1)
				}
			}
		}
	}
	return true
}

func forestNontrivial(f *aForest) bool {
	children := map[int]int{}
	for _, b := range f.Blocks[1:] {
		children[b.Parent]++
		if b.View != f.Blocks[b.Parent].View+1 || b.QC != b.Parent || b.Withheld {
			return true
		}
	}
	for _, c := range children {
		if c > 1 {
			return true
		}
	}
	return false
}

// enumForests enumerates all forests with k blocks above genesis: parent among
// earlier ids, view in (parent.view, maxView], QC target any other block with a
// smaller view, at most one block withheld (served or not).
func enumForests(k, maxView int, emit func(f *aForest)) {
	blocks := make([]aBlock, k+1)
	blocks[0] = aBlock{ID: 0, Parent: -1, QC: -1, View: 0}
	var shape func(i int)
	var qcs func(i int)
	finish := func() {
		// withheld variants
		base := append([]aBlock(nil), blocks...)
		emit(&aForest{Blocks: base})
		for w := 1; w <= k; w++ {
			for _, served := range []bool{false, true} {
				bl := append([]aBlock(nil), blocks...)
				bl[w].Withheld = true
				emit(&aForest{Blocks: bl, Served: served})
			}
		}
	}
	qcs = func(i int) {
		if i > k {
			finish()
			return
		}
		for j := 0; j <= k; j++ {
			if j == i || blocks[j].View >= blocks[i].View {
				continue
			}
			blocks[i].QC = j
			qcs(i + 1)
		}
	}
	shape = func(i int) {
		if i > k {
			qcs(1)
			return
		}
		for par := 0; par < i; par++ {
			for v := blocks[par].View + 1; v <= maxView; v++ {
				blocks[i] = aBlock{ID: i, Parent: par, View: v}
				shape(i + 1)
			}
		}
	}
	shape(1)
}

func permutations(ids []int, emit func([]int)) {
	a := append([]int(nil), ids...)
	var rec func(k int)
	rec = func(k int) {
		if k == len(a) {
			emit(append([]int(nil), a...))
			return
		}
		for i := k; i < len(a); i++ {
			a[k], a[i] = a[i], a[k]
			rec(k + 1)
			a[k], a[i] = a[i], a[k]
		}
	}
	rec(0)
}

func c04Exhaustive(p vbase.Params, r *vbase.Result) {
	type bound struct{ k, maxView, sampleDen int }
	bounds := []bound{{1, 7, 1}, {2, 7, 1}, {3, 6, 1}, {4, 5, 5}}
	if p.Thorough() {
		bounds = []bound{{1, 7, 1}, {2, 7, 1}, {3, 7, 1}, {4, 6, 1}, {5, 6, 150}}
	}
	r.Rule = fmt.Sprintf("all forests with k blocks above genesis (parent among earlier blocks, views up to maxView incl. gaps and equal views on different branches, QC target any block with a smaller view, "+
		"at most one block withheld and either served by peers or not) x ALL presentation orders x 3 rulesets; bounds (k,maxView,1/sample)=%v; each presentation: VoteRule for every block at two current views "+
		"(+ with/without AggregateQC for fasthotstuff), Store+CommitRule, lock via Peek; non-trivial: fork, view gap, QC != parent or withheld block; distinct: (forest, order)", bounds)
	r.Exhaustive = true
	idx := 0
	for _, b := range bounds {
		enumForests(b.k, b.maxView, func(f *aForest) {
			idx++
			if !p.Mine(idx) {
				return
			}
			if b.sampleDen > 1 {
				r.Exhaustive = false
				if vbase.NewRng(p.Seed, "C04.sample", b.k, idx).Intn(b.sampleDen) != 0 {
					return
				}
			}
			rf := buildReal(f)
			var present []int
			for _, x := range f.Blocks[1:] {
				if !x.Withheld {
					present = append(present, x.ID)
				}
			}
			nt := forestNontrivial(f)
			ok := true
			permutations(present, func(order []int) {
				if !ok {
					return
				}
				for _, kind := range c04Kinds {
					if !c04Run(r, f, rf, order, kind, true, nil) {
						ok = false
					}
				}
				r.Eval(nt, fmt.Sprintf("%+v|%v", f, order))
			})
			r.Obs("forests", 1)
			if nt && b.k >= 3 && r.WantSample() && idx%97 == 0 {
				r.Sample(map[string]any{"forest": f, "orders": "all permutations of non-withheld blocks", "rulesets": c04Kinds})
			}
		})
	}
}

func c04Random(p vbase.Params, r *vbase.Result) {
	r.Rule = "random forests of 6..40 blocks (chains with forks, view gaps, QC pointing to parent / ancestor / sibling branch, up to 3 withheld blocks served or not), random presentation orders " +
		"(mostly parent-before-child, sometimes arbitrary), 3 rulesets; non-trivial: fork, gap, QC != parent or withheld; distinct: (forest, order)"
	n := p.N(60000, 2000000)
	for i := 0; i < n; i++ {
		rng := vbase.NewRng(p.Seed, "C04.random", p.Shard, i)
		k := rng.Range(6, 40)
		f := &aForest{Blocks: []aBlock{{ID: 0, Parent: -1, QC: -1}}, Served: rng.Bool()}
		tip := 0
		for id := 1; id <= k; id++ {
			par := tip
			if rng.Chance(1, 5) {
				par = rng.Intn(id) // fork
			}
			v := f.Blocks[par].View + 1
			if rng.Chance(1, 6) {
				v += rng.Range(1, 3)
			}
			qc := par
			if rng.Chance(1, 6) {
				// QC for another block with a smaller view
				var c []int
				for _, x := range f.Blocks {
					if x.View < v {
						c = append(c, x.ID)
					}
				}
				qc = c[rng.Intn(len(c))]
			}
			f.Blocks = append(f.Blocks, aBlock{ID: id, Parent: par, QC: qc, View: v})
			if par == tip || rng.Chance(1, 2) {
				tip = id
			}
		}
		for wcount := rng.Intn(4); wcount > 0; wcount-- {
			f.Blocks[1+rng.Intn(k)].Withheld = true
		}
		rf := buildReal(f)
		var present []int
		for _, x := range f.Blocks[1:] {
			if !x.Withheld {
				present = append(present, x.ID)
			}
		}
		if len(present) == 0 {
			continue
		}
		order := append([]int(nil), present...)
		switch rng.Intn(4) {
		case 0: // arbitrary order
			pm := rng.Perm(len(order))
			o2 := make([]int, len(order))
			for a, b := range pm {
				o2[a] = order[b]
			}
			order = o2
		case 1: // local swaps
			for s := 0; s < len(order)/3; s++ {
				a := rng.Intn(len(order) - 0)
				b := a + rng.Range(0, 2)
				if b < len(order) {
					order[a], order[b] = order[b], order[a]
				}
			}
		}
		for _, kind := range c04Kinds {
			c04Run(r, f, rf, order, kind, false, rng)
			if i%4 == 0 {
				c04RunMode(r, f, rf, order, kind, false, rng, true)
			}
		}
		nt := forestNontrivial(f)
		r.Eval(nt, fmt.Sprintf("%+v|%v", f, order))
		if nt && r.WantSample() {
			r.Sample(map[string]any{"forest": f, "order": order})
		}
	}
}
