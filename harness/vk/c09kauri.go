package vk

import (
	"fmt"
	"reflect"
	"time"
	"unsafe"

	"github.com/relab/hotstuff"
	"github.com/relab/hotstuff/core"
	"github.com/relab/hotstuff/core/eventloop"
	"github.com/relab/hotstuff/internal/proto/hotstuffpb"
	"github.com/relab/hotstuff/internal/proto/kauripb"
	"github.com/relab/hotstuff/internal/tree"
	"github.com/relab/hotstuff/protocol/comm"
	"github.com/relab/hotstuff/security/crypto"
	"github.com/relab/hotstuff/verif/vbase"
)

func init() {
	Register("C09.kauri", c09Kauri)
}

// mkWaitExpired builds comm.WaitTimerExpiredEvent{currentView: v} (its field is unexported).
func mkWaitExpired(v hotstuff.View) (any, bool) {
	t := reflect.TypeOf(comm.WaitTimerExpiredEvent{})
	if t.NumField() != 1 || t.Field(0).Type != reflect.TypeOf(hotstuff.View(0)) {
		return nil, false
	}
	val := reflect.New(t).Elem()
	*(*hotstuff.View)(unsafe.Pointer(val.Field(0).UnsafeAddr())) = v
	return val.Interface(), true
}

func c09Kauri(p vbase.Params, r *vbase.Result) {
	r.Rule = "real comm.Kauri at root / inner / leaf positions of trees (n in {4,7,13}, bf 2..3, random position assignments) with a recording KauriSender; after the node's own vote, contributions arrive in random order: " +
		"genuine aggregates of whole child subtrees, partial ones, overlapping ones (naming the node itself or an already merged signer), invalid ones (signatures over another block), wrong-view ones, duplicates, and " +
		"optionally the wait-timer expiry in between; oracle (sign-log ground truth): a QC is emitted iff the distinct valid signers merged since the last reset reach q; every emitted QC and every contribution sent to " +
		"the parent verifies, names each signer once, and names only the node and valid child signers received for that view; non-trivial: >=1 hostile contribution or a timer expiry; distinct: (tree, position, arrival list)"
	cases := p.N(4000, 300000)
	for i := 0; i < cases; i++ {
		rng := vbase.NewRng(p.Seed, "C09.kauri", p.Shard, p.NShards, i)
		n := []int{4, 7, 13}[rng.Intn(3)]
		bf := rng.Range(2, 3)
		scheme := crypto.NameEDDSA
		switch rng.Intn(6) {
		case 0:
			scheme = crypto.NameECDSA
		case 1:
			scheme = crypto.NameBLS12
		}
		pos := make([]hotstuff.ID, n)
		for k, x := range rng.Perm(n) {
			pos[k] = hotstuff.ID(x + 1)
		}
		self := pos[rng.Intn(n)]
		w := NewWorld(n, scheme, uint([]int{0, 100}[rng.Intn(2)]))
		q := w.Q()
		tr := tree.NewSimple(self, bf, pos)
		tr.SetTreeHeightWaitTime(time.Hour) // the wait timer is driven by the harness
		m := w.NewMemberWith(self, core.WithKauriTree(tr))
		k := comm.NewKauri(m.Logger, m.EL, m.Cfg, m.Chain, m.Auth, m.Sender)
		var qcs []hotstuff.QuorumCert
		eventloop.Register(m.EL, func(nv hotstuff.NewViewMsg) {
			if qc, ok := nv.SyncInfo.QC(); ok {
				qcs = append(qcs, qc)
			}
		}, eventloop.Prioritize())
		drain := func() (pan any) {
			defer func() {
				if e := recover(); e != nil {
					pan = e
				}
			}()
			for m.EL.Tick(nil) {
			}
			return nil
		}
		_ = drain
		tick := func() (pan any) {
			defer func() {
				if e := recover(); e != nil {
					pan = e
				}
			}()
			ctx := m.EL.Context()
			for m.EL.Tick(ctx) {
			}
			return nil
		}
		m.EL.AddEvent(hotstuff.ReplicaConnectedEvent{})
		tick()
		gen := hotstuff.GetGenesis()
		view := hotstuff.View(rng.Range(1, 9))
		B := hotstuff.NewBlock(gen.Hash(), hotstuff.NewQuorumCert(nil, 0, gen.Hash()), Batch(1, 1, 1), view, tr.Root())
		Other := hotstuff.NewBlock(gen.Hash(), hotstuff.NewQuorumCert(nil, 0, gen.Hash()), Batch(2, 1, 1), view, tr.Root())
		w.StoreAll(B)
		w.StoreAll(Other)
		m.Chain.Store(B)
		m.Chain.Store(Other)
		pc, err := m.Auth.CreatePartialCert(B)
		if err != nil {
			panic(err)
		}
		rep := map[string]any{"seed": p.Seed, "shard": p.Shard, "nshards": p.NShards, "case": i, "n": n, "bf": bf, "positions": pos, "self": self, "scheme": scheme}
		var arrivals []string
		fail := func(rule, format string, a ...any) {
			r.Violate(vbase.Sig("kauri-"+rule, "scheme", scheme), fmt.Sprintf(format, a...)+fmt.Sprintf(" [n=%d bf=%d q=%d self=%d positions=%v arrivals=%v]", n, bf, q, self, pos, arrivals), rep)
		}
		prop := hotstuff.ProposeMsg{ID: tr.Root(), Block: B}
		if err := k.Aggregate(&prop, pc); err != nil {
			fail("aggregate-error", "Aggregate failed: %v", err)
			continue
		}
		if pan := tick(); pan != nil {
			r.Obs("panics_judged_under_C10", 1)
			continue
		}
		children := tr.ReplicaChildren()
		agg := map[hotstuff.ID]bool{self: true} // model: valid signers merged since the last reset
		received := map[hotstuff.ID]bool{self: true}
		maxAgg := 1
		maxAggBeforeTimer := 1
		skipComplete := false
		hostile, expired := 0, false
		resetByTimer := false
		// subtree of each child (from the child's vantage point)
		sub := map[hotstuff.ID][]hotstuff.ID{}
		for _, c := range children {
			sub[c] = append([]hotstuff.ID{c}, tree.NewSimple(c, bf, pos).SubTree()...)
		}
		steps := 0
		if len(children) > 0 {
			steps = rng.Range(1, 2*len(children)+2)
		}
		for s := 0; s < steps; s++ {
			if rng.Chance(1, 9) && !expired {
				if ev, ok := mkWaitExpired(view); ok {
					arrivals = append(arrivals, "TIMER")
					m.EL.AddEvent(ev)
					if pan := tick(); pan != nil {
						r.Obs("panics_judged_under_C10", 1)
						break
					}
					expired = true
					// if nothing had been sent up yet, the node sends what it has and starts over
					resetByTimer = true
					agg = map[hotstuff.ID]bool{}
					continue
				}
			}
			c := children[rng.Intn(len(children))]
			ids := sub[c]
			kind := rng.Intn(10)
			var pieces []piece
			cview := view
			label := ""
			switch {
			case kind <= 4: // genuine aggregate of the whole child subtree
				pieces = honest(ids, B.ToBytes())
				label = fmt.Sprintf("subtree(%d)", c)
			case kind == 5: // partial: only some of the subtree
				cnt := rng.Range(1, len(ids))
				pieces = honest(ids[:cnt], B.ToBytes())
				label = fmt.Sprintf("partial(%d,%d)", c, cnt)
			case kind == 6: // overlapping: also names the node itself
				pieces = honest(append(append([]hotstuff.ID(nil), ids...), self), B.ToBytes())
				label = fmt.Sprintf("overlap-self(%d)", c)
				hostile++
			case kind == 7: // invalid: signatures over another block
				pieces = honest(ids, Other.ToBytes())
				label = fmt.Sprintf("wrong-block(%d)", c)
				hostile++
			case kind == 8: // wrong view
				pieces = honest(ids, B.ToBytes())
				cview = view + 1
				label = fmt.Sprintf("wrong-view(%d)", c)
				hostile++
			default: // one signer relabelled as somebody who did not sign
				pieces = honest(ids, B.ToBytes())
				var outsider hotstuff.ID
				for _, id := range pos {
					in := id == self
					for _, x := range ids {
						if x == id {
							in = true
						}
					}
					if !in {
						outsider = id
					}
				}
				if outsider != 0 {
					pieces[0].Claim = outsider
				}
				label = fmt.Sprintf("relabelled(%d)", c)
				hostile++
			}
			sig := w.assemble(pieces, nil, 0)
			if sig == nil {
				continue
			}
			arrivals = append(arrivals, label)
			// model
			if cview == view {
				truth := w.TrueSigners(sig, func(hotstuff.ID) []byte { return B.ToBytes() })
				claimed := 0
				sig.Participants().ForEach(func(hotstuff.ID) { claimed++ })
				disjoint := true
				for id := range truth {
					if agg[id] {
						disjoint = false
					}
				}
				sig.Participants().ForEach(func(id hotstuff.ID) {
					if agg[id] {
						disjoint = false
					}
				})
				if len(truth) == claimed && claimed > 0 && disjoint && w.LibraryDefect(sig, func(hotstuff.ID) []byte { return B.ToBytes() }) {
					r.Obs("bls_library_defect_cases_skipped", 1)
					skipComplete = true // this case cannot be judged for completeness
				} else if len(truth) == claimed && claimed > 0 && disjoint {
					for id := range truth {
						agg[id] = true
						received[id] = true
					}
					if len(agg) > maxAgg {
						maxAgg = len(agg)
					}
					if !expired && len(agg) > maxAggBeforeTimer {
						maxAggBeforeTimer = len(agg)
					}
				}
			}
			m.EL.AddEvent(&kauripb.Contribution{ID: uint32(c), Signature: hotstuffpb.QuorumSignatureToProto(sig), View: uint64(cview)})
			if pan := tick(); pan != nil {
				r.Obs("panics_judged_under_C10", 1)
				r.Note("panic while merging a contribution (judged under C10): %v", pan)
				break
			}
		}
		_ = resetByTimer
		// judge
		other := w.M(pos[0])
		if other.ID == self && n > 1 {
			other = w.M(pos[1])
		}
		emitted := len(qcs) > 0
		// soundness at any time; completeness only for what arrived before the wait timer expired (what a node
		// does with late contributions after it has already reported upwards is not part of the statement)
		if emitted && maxAgg < q {
			fail("qc-below-quorum", "a QC event was emitted although at most %d distinct valid signers were merged (q=%d)", maxAgg, q)
		} else if !emitted && maxAggBeforeTimer >= q && !skipComplete {
			fail("qc-missing", "%d distinct valid signers were merged before the wait timer expired (q=%d) but no QC event was emitted", maxAggBeforeTimer, q)
		}
		for _, qc := range qcs {
			verd, signers := w.TrueQC(qc)
			if verd == MustReject {
				fail("qc-invalid", "an emitted QC is not backed by a quorum of genuine signatures (%d real signers)", len(signers))
				break
			}
			if err := other.Auth.VerifyQuorumCert(qc); err != nil {
				if w.LibraryDefect(qc.Signature(), func(hotstuff.ID) []byte { return B.ToBytes() }) {
					r.Obs("bls_library_defect_cases_skipped", 1)
					break
				}
				fail("qc-unverifiable", "an emitted QC does not verify at replica %d: %v", other.ID, err)
				break
			}
			okSub := true
			qc.Signature().Participants().ForEach(func(id hotstuff.ID) {
				if !received[id] {
					okSub = false
				}
			})
			if !okSub {
				fail("qc-foreign-signer", "an emitted QC names a signer that was never validly received")
				break
			}
		}
		for _, ct := range m.Sender.DrainContr() {
			r.Obs("contributions_sent_up", 1)
			if ct.View != view {
				fail("contribution-view", "contribution sent to the parent carries view %d, the proposal's view is %d", ct.View, view)
				break
			}
			if ct.Sig == nil {
				fail("contribution-nil", "a nil contribution was sent to the parent")
				break
			}
			truth := w.TrueSigners(ct.Sig, func(hotstuff.ID) []byte { return B.ToBytes() })
			cnt, dup := 0, false
			seen := map[hotstuff.ID]bool{}
			ct.Sig.Participants().ForEach(func(id hotstuff.ID) {
				cnt++
				if seen[id] {
					dup = true
				}
				seen[id] = true
			})
			if dup || len(truth) != cnt {
				fail("contribution-invalid", "a contribution sent to the parent does not verify against the block (claims %d signers, %d genuine, duplicate=%v)", cnt, len(truth), dup)
				break
			}
			for id := range seen {
				if !received[id] {
					fail("contribution-foreign-signer", "a contribution sent to the parent names replica %d that was never validly received", id)
					break
				}
			}
		}
		r.Eval(hostile > 0 || expired, fmt.Sprint(n, bf, pos, self, arrivals))
		r.Obs("contributions_injected", int64(len(arrivals)))
		if emitted {
			r.Obs("qcs_emitted", 1)
		}
		if (hostile > 0 || expired) && r.WantSample() && len(arrivals) > 1 {
			r.Sample(map[string]any{"n": n, "bf": bf, "q": q, "self": self, "children": children, "arrivals": arrivals, "qc_emitted": emitted, "merged_valid_signers": maxAgg})
		}
	}
}
