package vk

import (
	"crypto/sha256"
	"fmt"
	"sort"
	"sync"

	"github.com/relab/hotstuff"
	"github.com/relab/hotstuff/core"
	"github.com/relab/hotstuff/internal/proto/hotstuffpb"
	"github.com/relab/hotstuff/security/cert"
	"github.com/relab/hotstuff/security/crypto"
	"github.com/relab/hotstuff/verif/vbase"
)

func init() {
	Register("C11.diff", c11Diff)
	Register("C11.parallel", c11Parallel)
}

// dualAuth: a cached and an uncached authority over the same keys and the same
// underlying scheme object.
type dualAuth struct {
	cached *cert.Authority
	plain  *cert.Authority
}

func newDual(w *World, id hotstuff.ID, capacity uint) dualAuth {
	m := w.M(id)
	cfgC := core.NewRuntimeConfig(id, w.Keys[id], core.WithCache(capacity), core.WithAggregateQC())
	cfgP := core.NewRuntimeConfig(id, w.Keys[id], core.WithAggregateQC())
	for _, o := range w.Members {
		info := &hotstuff.ReplicaInfo{ID: o.ID, PubKey: w.Keys[o.ID].Public(), Metadata: o.Cfg.ConnectionMetadata()}
		cfgC.AddReplica(info)
		cfgP.AddReplica(info)
	}
	return dualAuth{cached: cert.NewAuthority(cfgC, m.Chain, m.Rec), plain: cert.NewAuthority(cfgP, m.Chain, m.Rec)}
}

type c11Op struct {
	Kind  string // verify | batch
	Class string
	Sig   hotstuff.QuorumSignature
	Msg   []byte
	Batch map[hotstuff.ID][]byte
	Parts []hotstuff.QuorumSignature // Kind "combine": the authority under test combines these itself, then verifies the result for Msg / Batch
}

func safeVerify(a *cert.Authority, op *c11Op) (err error, pan any) {
	defer func() {
		if e := recover(); e != nil {
			pan = e
		}
	}()
	if op.Kind == "combine" {
		comb, err := a.Combine(op.Parts...)
		if err != nil {
			return err, nil
		}
		if op.Batch != nil {
			return a.BatchVerify(comb, op.Batch), nil
		}
		return a.Verify(comb, op.Msg), nil
	}
	if op.Kind == "batch" {
		return a.BatchVerify(op.Sig, op.Batch), nil
	}
	return a.Verify(op.Sig, op.Msg), nil
}

// c11Ops builds a hostile operation sequence: honest signatures, combinations,
// and replays of already-seen signatures under altered messages, batches, views,
// and signer labels, interleaved with filler traffic that forces evictions.
func c11Ops(w *World, d dualAuth, rng *vbase.Rng, length int, capacity uint) []c11Op {
	n := w.N
	var ops []c11Op
	msgs := [][]byte{[]byte("m0"), []byte("m1"), []byte("ab"), []byte("a"), []byte("bc"), []byte("c"), hotstuff.View(7).ToBytes(), hotstuff.View(8).ToBytes()}
	type seen struct {
		ids []hotstuff.ID
		msg []byte
	}
	type seenBatch struct {
		ids   []hotstuff.ID
		batch map[hotstuff.ID][]byte
	}
	var pool []seen
	var bpool []seenBatch
	pickIDs := func(k int) []hotstuff.ID {
		var ids []hotstuff.ID
		for _, x := range rng.Perm(n)[:k] {
			ids = append(ids, hotstuff.ID(x+1))
		}
		return ids
	}
	cloneBatch := func(b map[hotstuff.ID][]byte) map[hotstuff.ID][]byte {
		o := map[hotstuff.ID][]byte{}
		for k, v := range b {
			o[k] = v
		}
		return o
	}
	batchPieces := func(ids []hotstuff.ID, b map[hotstuff.ID][]byte) []piece {
		var ps []piece
		for _, id := range ids {
			ps = append(ps, piece{Claim: id, Src: id, Msg: b[id]})
		}
		return ps
	}
	for len(ops) < length {
		switch rng.Intn(15) {
		case 14: // the authority under test combines signatures it has verified one by one; they are over DIFFERENT messages
			// (timeout messages of different replicas, votes for different blocks), and the combination is then verified for one of them
			if n >= 2 {
				ids := pickIDs(rng.Range(2, min(n, 4)))
				var parts []hotstuff.QuorumSignature
				var pmsgs [][]byte
				batch := map[hotstuff.ID][]byte{}
				for k, id := range ids {
					msg := append([]byte(fmt.Sprintf("part-%d-", k)), rng.Bytes(rng.Range(1, 6))...)
					if rng.Chance(1, 4) && k > 0 {
						msg = pmsgs[0] // sometimes the same message: then the combination is valid for it
					}
					sg, err := w.M(id).Auth.Sign(msg)
					if err != nil {
						panic(err)
					}
					parts = append(parts, sg)
					pmsgs = append(pmsgs, msg)
					batch[id] = msg
					ops = append(ops, c11Op{Kind: "verify", Class: "honest", Sig: sg, Msg: msg})
				}
				ops = append(ops, c11Op{Kind: "combine", Class: "combine-verified-parts-then-verify-for-last-message", Parts: parts, Msg: pmsgs[len(pmsgs)-1]})
				ops = append(ops, c11Op{Kind: "combine", Class: "combine-verified-parts-then-verify-for-first-message", Parts: parts, Msg: pmsgs[0]})
				ops = append(ops, c11Op{Kind: "combine", Class: "combine-verified-parts-then-batch-verify", Parts: parts, Batch: batch})
			}
		case 13: // real signature objects combined by the real Combine, then looked at again: the inputs, the result, and the
			// first input's signature bytes relabelled with all signers (one signature presented as the combination)
			if n >= 2 {
				ids := pickIDs(rng.Range(2, min(n, 4)))
				if rng.Bool() {
					sort.Slice(ids, func(a, b int) bool { return ids[a] < ids[b] })
				}
				msg := rng.Bytes(rng.Range(1, 12))
				var objs []hotstuff.QuorumSignature
				for _, id := range ids {
					sg, err := w.M(id).Auth.Sign(msg)
					if err != nil {
						panic(err)
					}
					objs = append(objs, sg)
				}
				ops = append(ops, c11Op{Kind: "verify", Class: "honest", Sig: objs[0], Msg: msg})
				first := Decompose(objs[0])
				comb, err := w.M(ids[0]).Auth.Combine(objs...)
				if err == nil {
					ops = append(ops, c11Op{Kind: "verify", Class: "honest-combined", Sig: comb, Msg: msg})
				}
				for k, o := range objs {
					if k < 2 {
						ops = append(ops, c11Op{Kind: "verify", Class: "input-of-combine-again", Sig: o, Msg: msg})
					}
				}
				if w.Scheme == crypto.NameBLS12 && first.Kind == crypto.NameBLS12 {
					var bf crypto.Bitfield
					for _, id := range ids {
						bf.Add(id)
					}
					if rs, err := crypto.RestoreBLS12AggregateSignature(first.Agg, bf); err == nil {
						ops = append(ops, c11Op{Kind: "verify", Class: "first-input-relabelled-as-the-combination", Sig: rs, Msg: msg})
					}
				}
				pool = append(pool, seen{ids, msg})
			}
		case 12: // framing twins: a valid batch, then the same signature for a batch with the same signers whose messages are cut elsewhere
			if n >= 2 {
				ids := pickIDs(2)
				i, j := ids[0], ids[1]
				if i > j {
					i, j = j, i
				}
				cnt := 2
				u32 := func(x uint32) []byte { return hotstuff.ID(x).ToBytes() }
				kind := rng.Intn(6)
				var frame []byte // what a key derivation may put between two entries, apart from the entry's own length
				switch kind {
				case 0:
					frame = j.ToBytes()
				case 1:
					frame = append(j.ToBytes(), hotstuff.View(cnt).ToBytes()...)
				case 2:
					frame = append(j.ToBytes(), u32(uint32(cnt))...)
				case 3:
					frame = append(j.ToBytes(), hotstuff.View(0).ToBytes()...)
				case 4:
					frame = append(hotstuff.View(cnt).ToBytes(), j.ToBytes()...)
				case 5:
					frame = append([]byte{0}, j.ToBytes()...)
				}
				P, R, mj := rng.Bytes(rng.Range(0, 5)), rng.Bytes(rng.Range(0, 5)), rng.Bytes(rng.Range(1, 6))
				a := map[hotstuff.ID][]byte{i: append(append(append([]byte(nil), P...), frame...), R...), j: mj}
				b := map[hotstuff.ID][]byte{i: P, j: append(append(append([]byte(nil), R...), frame...), mj...)}
				sig := w.assemble(batchPieces([]hotstuff.ID{i, j}, a), nil, 0)
				bpool = append(bpool, seenBatch{[]hotstuff.ID{i, j}, a})
				ops = append(ops, c11Op{Kind: "batch", Class: "honest", Sig: sig, Batch: a})
				ops = append(ops, c11Op{Kind: "batch", Class: fmt.Sprintf("replay-batch-recut-across-frame-%d", kind), Sig: w.assemble(batchPieces([]hotstuff.ID{i, j}, a), nil, 0), Batch: b})
			}
		case 0, 1: // fresh honest (multi-)signature
			ids := pickIDs(rng.Range(1, n))
			msg := msgs[rng.Intn(len(msgs))]
			if rng.Chance(1, 3) {
				msg = rng.Bytes(rng.Range(1, 12))
			}
			pool = append(pool, seen{ids, msg})
			ops = append(ops, c11Op{Kind: "verify", Class: "honest", Sig: w.assemble(honest(ids, msg), nil, 0), Msg: msg})
		case 2: // fresh honest batch
			ids := pickIDs(rng.Range(1, n))
			b := map[hotstuff.ID][]byte{}
			for _, id := range ids {
				b[id] = append([]byte(fmt.Sprintf("t%d-", id)), msgs[rng.Intn(len(msgs))]...)
			}
			bpool = append(bpool, seenBatch{ids, b})
			ops = append(ops, c11Op{Kind: "batch", Class: "honest", Sig: w.assemble(batchPieces(ids, b), nil, 0), Batch: b})
		case 3: // replay unchanged
			if len(pool) > 0 {
				s := pool[rng.Intn(len(pool))]
				ops = append(ops, c11Op{Kind: "verify", Class: "replay", Sig: w.assemble(honest(s.ids, s.msg), nil, 0), Msg: s.msg})
			}
		case 4: // replay under another message
			if len(pool) > 0 {
				s := pool[rng.Intn(len(pool))]
				other := msgs[rng.Intn(len(msgs))]
				ops = append(ops, c11Op{Kind: "verify", Class: "replay-other-message", Sig: w.assemble(honest(s.ids, s.msg), nil, 0), Msg: other})
			}
		case 5: // replay with altered signer labels (same signature material)
			if len(pool) > 0 {
				s := pool[rng.Intn(len(pool))]
				ps := honest(s.ids, s.msg)
				switch rng.Intn(3) {
				case 0:
					ps[0].Claim = hotstuff.ID(rng.Range(1, n+1))
				case 1:
					if len(ps) >= 2 {
						ps[0].Claim, ps[1].Claim = ps[1].Claim, ps[0].Claim
					}
				}
				var extra []hotstuff.ID
				if w.Scheme == crypto.NameBLS12 && rng.Bool() {
					extra = pickIDs(rng.Range(1, n))
				}
				ops = append(ops, c11Op{Kind: "verify", Class: "replay-relabelled-signers", Sig: w.assemble(ps, extra, rng.Intn(2)), Msg: s.msg})
			}
		case 6: // replay of a batch signature with an altered batch
			if len(bpool) > 0 {
				s := bpool[rng.Intn(len(bpool))]
				sig := w.assemble(batchPieces(s.ids, s.batch), nil, 0)
				b := cloneBatch(s.batch)
				class := "replay-batch-"
				switch rng.Intn(5) {
				case 0:
					b[s.ids[0]] = append(append([]byte(nil), b[s.ids[0]]...), 'x')
					class += "message-changed"
				case 1:
					if len(s.ids) >= 2 { // re-key: swap the messages of two signers
						b[s.ids[0]], b[s.ids[1]] = b[s.ids[1]], b[s.ids[0]]
						class += "rekeyed"
					} else {
						class += "same"
					}
				case 2:
					b[hotstuff.ID(n+1)] = []byte("extra")
					class += "entry-added"
				case 3:
					delete(b, s.ids[0])
					class += "entry-removed"
				case 4:
					if len(s.ids) >= 2 { // same concatenation, different split
						m0, m1 := b[s.ids[0]], b[s.ids[1]]
						if s.ids[0] < s.ids[1] && len(m1) > 1 {
							b[s.ids[0]] = append(append([]byte(nil), m0...), m1[0])
							b[s.ids[1]] = m1[1:]
						} else if len(m0) > 1 {
							b[s.ids[1]] = append(append([]byte(nil), m1...), m0[0])
							b[s.ids[0]] = m0[1:]
						}
						class += "same-concatenation"
					} else {
						class += "same"
					}
				}
				ops = append(ops, c11Op{Kind: "batch", Class: class, Sig: sig, Batch: b})
			}
		case 7: // replay of a batch signature unchanged
			if len(bpool) > 0 {
				s := bpool[rng.Intn(len(bpool))]
				ops = append(ops, c11Op{Kind: "batch", Class: "replay", Sig: w.assemble(batchPieces(s.ids, s.batch), nil, 0), Batch: s.batch})
			}
		case 8: // a signature verified as plain, replayed as batch and vice versa
			if len(pool) > 0 {
				s := pool[rng.Intn(len(pool))]
				b := map[hotstuff.ID][]byte{}
				for _, id := range s.ids {
					b[id] = s.msg
				}
				ops = append(ops, c11Op{Kind: "batch", Class: "plain-as-batch", Sig: w.assemble(honest(s.ids, s.msg), nil, 0), Batch: b})
				// ... as a ONE-entry batch filed under an id that did not sign, and with fewer entries than the signature claims
				other := hotstuff.ID(1 + int(s.ids[0])%n)
				if n >= 2 {
					ops = append(ops, c11Op{Kind: "batch", Class: "plain-as-single-entry-batch-other-id", Sig: w.assemble(honest(s.ids, s.msg), nil, 0), Batch: map[hotstuff.ID][]byte{other: s.msg}})
				}
				ops = append(ops, c11Op{Kind: "batch", Class: "plain-as-single-entry-batch", Sig: w.assemble(honest(s.ids, s.msg), nil, 0), Batch: map[hotstuff.ID][]byte{s.ids[0]: s.msg}})
			}
		case 9: // filler traffic to force evictions
			for k := 0; k < int(capacity)+1 && k < 6; k++ {
				id := hotstuff.ID(rng.Range(1, n))
				msg := rng.Bytes(6)
				ops = append(ops, c11Op{Kind: "verify", Class: "filler", Sig: w.assemble(honest([]hotstuff.ID{id}, msg), nil, 0), Msg: msg})
			}
		case 10: // garbage
			ops = append(ops, c11Op{Kind: "verify", Class: "empty-participants", Sig: w.assemble(nil, nil, 0), Msg: msgs[0]})
		case 11: // sign through the cached authority (Sign inserts into the cache), then verify variants
			msg := msgs[rng.Intn(len(msgs))]
			sig, err := d.cached.Sign(msg)
			if err == nil {
				ops = append(ops, c11Op{Kind: "verify", Class: "own-signature", Sig: sig, Msg: msg})
				ops = append(ops, c11Op{Kind: "verify", Class: "own-signature-other-message", Sig: sig, Msg: append([]byte("z"), msg...)})
				ops = append(ops, c11Op{Kind: "batch", Class: "own-signature-as-single-entry-batch-other-id", Sig: sig, Batch: map[hotstuff.ID][]byte{hotstuff.ID(n + 1): msg}})
			}
			// messages related by hashing: the cache works with digests of messages, so a signature over the 32-byte digest of
			// X must not pass as a signature over X (nor the other way round)
			x := rng.Bytes(rng.Range(1, 40))
			dx := sha256.Sum256(x)
			if sig, err := d.cached.Sign(dx[:]); err == nil {
				ops = append(ops, c11Op{Kind: "verify", Class: "own-signature-over-digest-presented-for-preimage", Sig: sig, Msg: x})
				ops = append(ops, c11Op{Kind: "verify", Class: "own-signature-over-digest", Sig: sig, Msg: dx[:]})
			}
			if sig, err := d.cached.Sign(x); err == nil {
				ops = append(ops, c11Op{Kind: "verify", Class: "own-signature-presented-for-its-digest", Sig: sig, Msg: dx[:]})
			}
			ids := pickIDs(rng.Range(1, n))
			ops = append(ops, c11Op{Kind: "verify", Class: "honest", Sig: w.assemble(honest(ids, dx[:]), nil, 0), Msg: dx[:]})
			ops = append(ops, c11Op{Kind: "verify", Class: "replay-digest-signature-for-preimage", Sig: w.assemble(honest(ids, dx[:]), nil, 0), Msg: x})
		}
	}
	return ops
}

func c11Diff(p vbase.Params, r *vbase.Result) {
	r.Rule = "two authorities over the same keys and the same scheme object, one with core.WithCache(c), c in {1,2,3,5,8,100}, one without; identical sequences of verify / batch-verify operations " +
		"(honest, combined by the authority under test from parts it verified one by one - over different messages - and verified for one of them or as a batch, combined by the real Combine with the inputs re-verified and the first input relabelled as the combination, replayed unchanged, replayed with altered message / batch (message changed, re-keyed, entry added/removed, same concatenation, messages re-cut across six plausible entry framings) / signer labels / bit field, own Sign results, " +
		"filler traffic forcing eviction); oracle: the uncached verdict (nil / non-nil) on every operation; non-trivial: replay whose uncached verdict is invalid; distinct: (scheme,capacity,class,uncached verdict,position class)"
	caps := []uint{1, 2, 3, 5, 8, 100}
	seqs := p.N(240, 20000)
	for i := 0; i < seqs; i++ {
		rng := vbase.NewRng(p.Seed, "C11.diff", p.Shard, i)
		scheme := Schemes[rng.Intn(3)]
		capacity := caps[rng.Intn(len(caps))]
		n := []int{2, 4, 7}[rng.Intn(3)]
		length := 120
		if scheme == crypto.NameBLS12 {
			length = 40
		}
		w := NewWorld(n, scheme, 0, core.WithAggregateQC())
		d := newDual(w, 1, capacity)
		ops := c11Ops(w, d, rng, length, capacity)
		for k := range ops {
			op := &ops[k]
			if op.Sig == nil && op.Kind != "combine" {
				continue
			}
			e1, p1 := safeVerify(d.plain, op)
			e2, p2 := safeVerify(d.cached, op)
			r.Obs("operations", 1)
			invalid := e1 != nil
			r.Eval(invalid && op.Class != "honest" && op.Class != "filler", fmt.Sprintf("%s/%d/%s/%s/%v/%s/%x/%v/%d", scheme, capacity, op.Kind, op.Class, invalid, partsStr(op.Sig), op.Msg, len(op.Batch), len(op.Parts)))
			if invalid {
				r.Obs("uncached_invalid", 1)
			} else {
				r.Obs("uncached_valid", 1)
			}
			rep := map[string]any{"case": i, "shard": p.Shard, "scheme": scheme, "capacity": capacity, "n": n, "op": k, "class": op.Class, "kind": op.Kind}
			if p1 != nil || p2 != nil {
				if (p1 != nil) != (p2 != nil) {
					r.Violate(vbase.Sig("cache-panic-differs", "class", op.Class, "scheme", scheme), fmt.Sprintf("op %d %s/%s: uncached panic=%v cached panic=%v", k, op.Kind, op.Class, p1, p2), rep)
				}
				continue
			}
			if (e1 == nil) != (e2 == nil) {
				kind := "cached-accepts-invalid"
				if e2 != nil {
					kind = "cached-rejects-valid"
				}
				r.Violate(vbase.Sig("cache-verdict", "kind", kind, "op", op.Kind, "class", op.Class, "scheme", scheme),
					fmt.Sprintf("operation %d (%s, %s) scheme %s capacity %d n=%d: uncached verdict %v, cached verdict %v", k, op.Kind, op.Class, scheme, capacity, n, e1, e2), rep)
			}
		}
		if r.WantSample() {
			var cl []string
			for _, op := range ops[:min(len(ops), 25)] {
				cl = append(cl, op.Kind+":"+op.Class)
			}
			r.Sample(map[string]any{"scheme": scheme, "capacity": capacity, "n": n, "first_ops": cl})
		}
	}
}

// c11Parallel drives ONE cached authority from 8 goroutines (race detector on) and
// checks each result against the verdict precomputed without a cache.
func c11Parallel(p vbase.Params, r *vbase.Result) {
	r.Rule = "one cached authority (capacity in {1,3,8}) driven from 8 goroutines with shuffled copies of a hostile operation list; each result compared with the verdict precomputed on the uncached authority; " +
		"race detector on (Cache mutex, per-signature verification goroutines); non-trivial: operation whose uncached verdict is invalid; distinct: (scheme,capacity,class,verdict)"
	reps := p.N(24, 600)
	for i := 0; i < reps; i++ {
		rng := vbase.NewRng(p.Seed, "C11.par", p.Shard, i)
		scheme := Schemes[rng.Intn(3)]
		capacity := []uint{1, 3, 8}[rng.Intn(3)]
		n := 4
		w := NewWorld(n, scheme, 0, core.WithAggregateQC())
		d := newDual(w, 1, capacity)
		length := 60
		if scheme == crypto.NameBLS12 {
			length = 24
		}
		ops := c11Ops(w, d, rng, length, capacity)
		want := make([]bool, len(ops))
		for k := range ops {
			if ops[k].Sig == nil && ops[k].Kind != "combine" {
				continue
			}
			e, pn := safeVerify(d.plain, &ops[k])
			want[k] = e == nil && pn == nil
		}
		var wg sync.WaitGroup
		for g := 0; g < 8; g++ {
			wg.Add(1)
			perm := vbase.NewRng(p.Seed, "C11.par.perm", p.Shard, i, g).Perm(len(ops))
			// every goroutine gets its own decoded copy of each signature object, as independent receivers
			// of the same wire message would (signature objects themselves are not claimed to be shareable)
			mine := make([]c11Op, len(ops))
			for k := range ops {
				mine[k] = ops[k]
				if ops[k].Sig != nil {
					mine[k].Sig = hotstuffpb.QuorumSignatureFromProto(wire(hotstuffpb.QuorumSignatureToProto(ops[k].Sig), &hotstuffpb.QuorumSignature{}))
				}
			}
			go func(perm []int, ops []c11Op) {
				defer wg.Done()
				for _, k := range perm {
					if ops[k].Sig == nil && ops[k].Kind != "combine" {
						continue
					}
					e, pn := safeVerify(d.cached, &ops[k])
					got := e == nil && pn == nil
					r.Obs("operations", 1)
					r.Eval(!want[k], fmt.Sprintf("%s/%d/%s/%v", scheme, capacity, ops[k].Class, want[k]))
					if got != want[k] {
						r.Violate(vbase.Sig("cache-verdict-parallel", "class", ops[k].Class, "scheme", scheme, "accepts", got),
							fmt.Sprintf("parallel: %s/%s scheme %s capacity %d: uncached valid=%v, cached valid=%v", ops[k].Kind, ops[k].Class, scheme, capacity, want[k], got),
							map[string]any{"case": i, "shard": p.Shard, "op": k})
					}
				}
			}(perm, mine)
		}
		wg.Wait()
		if r.WantSample() {
			r.Sample(map[string]any{"scheme": scheme, "capacity": capacity, "goroutines": 8, "ops": len(ops)})
		}
	}
}
