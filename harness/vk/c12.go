package vk

import (
	"bytes"
	"fmt"
	"sort"
	"time"

	"github.com/relab/hotstuff"
	"github.com/relab/hotstuff/core"
	"github.com/relab/hotstuff/internal/proto/clientpb"
	"github.com/relab/hotstuff/internal/proto/hotstuffpb"
	"github.com/relab/hotstuff/security/crypto"
	"github.com/relab/hotstuff/verif/vbase"
	"google.golang.org/protobuf/proto"
)

func init() {
	Register("C12.roundtrip", c12Roundtrip)
}

func partsStr(sig hotstuff.QuorumSignature) string {
	if sig == nil {
		return "nil"
	}
	var ids []hotstuff.ID
	sig.Participants().ForEach(func(id hotstuff.ID) { ids = append(ids, id) })
	return fmt.Sprintf("%v/%d/%x", ids, sig.Participants().Len(), sig.ToBytes())
}

func wire[T proto.Message](m T, fresh T) T {
	b, err := proto.Marshal(m)
	if err != nil {
		panic(err)
	}
	if err := proto.Unmarshal(b, fresh); err != nil {
		panic(err)
	}
	return fresh
}

func errStr(e error) string {
	if e == nil {
		return "ok"
	}
	return "err"
}

func qcStr(qc hotstuff.QuorumCert) string {
	return fmt.Sprintf("view=%d hash=%x sig=%s bytes=%x", qc.View(), qc.BlockHash(), partsStr(qc.Signature()), qc.ToBytes())
}

func c12Roundtrip(p vbase.Params, r *vbase.Result) {
	r.Rule = "protocol objects produced by real signers (3 schemes, n in {1,4,7}, 1..n signers) -> XToProto -> proto.Marshal -> proto.Unmarshal -> XFromProto; compared: Hash(), ToBytes() (bytes-to-sign), " +
		"ordered participants, Signer(), views, and the verdict of the real Verify* at another replica before vs after; objects: blocks (nil/empty/non-empty batches, extreme views/ids/timestamps incl. years outside 1..9999; the same wire bytes decoded twice, with and without the timestamp field), " +
		"partial certs, QCs (incl. signature-free, and with the signatures in descending / arrival order), TCs, AggQCs (0..n entries), SyncInfos (every subset of QC/TC/AggQC), timeout messages with/without message signature, proposals with/without AggQC, " +
		"plus structurally mutated (invalid) certificates whose verdict must stay invalid; non-trivial: object with an optional part present or an extreme value; distinct: shape vector"
	cases := p.N(4000, 300000)
	for i := 0; i < cases; i++ {
		rng := vbase.NewRng(p.Seed, "C12", p.Shard, i)
		scheme := Schemes[rng.Intn(3)]
		n := []int{1, 4, 7, 10, 13}[rng.Intn(5)] // >= 9 replicas: BLS bit fields longer than one byte
		w := NewWorld(n, scheme, uint([]int{0, 10}[rng.Intn(2)]), core.WithAggregateQC())
		q := w.Q()
		rep := map[string]any{"case": i, "shard": p.Shard, "scheme": scheme, "n": n}
		fail := func(obj, what, msg string) {
			r.Violate(vbase.Sig("roundtrip-"+obj, "what", what, "scheme", scheme), fmt.Sprintf("%s (%s, n=%d): %s", obj, scheme, n, msg), rep)
		}
		other := w.M(hotstuff.ID(n)) // verifying replica
		// --- a small chain of blocks with real QCs
		gen := hotstuff.GetGenesis()
		parent := gen
		parentQC := hotstuff.NewQuorumCert(nil, 0, gen.Hash())
		var blocks []*hotstuff.Block
		var qcs []hotstuff.QuorumCert
		altQCs := map[hotstuff.Hash]hotstuff.QuorumCert{}
		var pcsAll [][]hotstuff.PartialCert
		clen := rng.Range(1, 3)
		for k := 0; k < clen; k++ {
			var batch *clientpb.Batch
			shape := rng.Intn(5)
			switch shape {
			case 0:
				batch = nil
			case 1:
				batch = &clientpb.Batch{}
			case 2:
				batch = Batch(uint32(rng.Intn(3)), uint64(rng.Intn(5)), rng.Range(1, 4))
			case 3:
				batch = &clientpb.Batch{Commands: []*clientpb.Command{{ClientID: 0, SequenceNumber: 0, Data: nil}, {ClientID: ^uint32(0), SequenceNumber: ^uint64(0), Data: rng.Bytes(rng.Range(0, 3000))}}}
			default:
				batch = &clientpb.Batch{Commands: []*clientpb.Command{{ClientID: 7, SequenceNumber: 9, Data: []byte{}}}}
			}
			view := parent.View() + hotstuff.View(rng.Range(1, 3))
			proposer := hotstuff.ID(rng.Range(1, n))
			extreme := ""
			if rng.Chance(1, 4) {
				view = []hotstuff.View{1 << 32, 1<<63 - 1, 1 << 63, ^hotstuff.View(0)}[rng.Intn(4)]
				proposer = []hotstuff.ID{0, 1, ^hotstuff.ID(0)}[rng.Intn(3)]
				extreme = "view/id"
			}
			blk := hotstuff.NewBlock(parent.Hash(), parentQC, batch, view, proposer)
			switch rng.Intn(11) {
			case 7:
				blk.SetTimestamp(time.Date(10000, 1, 1, 0, 0, 0, 5, time.UTC))
				extreme += " year-10000"
			case 8:
				blk.SetTimestamp(time.Unix(1<<55, 77))
				extreme += " far-future"
			case 9:
				blk.SetTimestamp(time.Date(0, 12, 31, 23, 59, 59, 999999999, time.UTC))
				extreme += " before-year-1"
			case 10:
				blk.SetTimestamp(time.Unix(-(1 << 55), 3))
				extreme += " far-past"
			case 0:
				blk.SetTimestamp(time.Time{})
				extreme += " zero-time"
			case 1:
				blk.SetTimestamp(time.Unix(-1000000, 999999999))
				extreme += " pre-1970"
			case 2:
				blk.SetTimestamp(time.Date(2300, 1, 1, 0, 0, 0, 123456789, time.UTC))
				extreme += " after-2262"
			case 3:
				blk.SetTimestamp(time.Unix(0, 1))
				extreme += " 1ns"
			case 4:
				blk.SetTimestamp(time.Date(2026, 3, 4, 5, 6, 7, 8, time.FixedZone("x", 3600*5)))
				extreme += " zoned"
			}
			w.StoreAll(blk)
			blocks = append(blocks, blk)
			// content identity: a block that differs only in how the same bytes are distributed over its commands (as a
			// peer can send it on the wire) is a different block - different bytes-to-sign, different hash
			if k == 0 {
				d1, d2 := rng.Bytes(rng.Range(0, 6)), rng.Bytes(rng.Range(0, 6))
				two, merged, names := AmbiguousBatchTwins(uint32(rng.Range(1, 3)), uint64(rng.Range(1, 9)), d1, uint32(rng.Range(1, 3)), uint64(rng.Range(1, 9)), d2)
				tb := hotstuff.NewBlock(parent.Hash(), parentQC, two, view, proposer)
				for ti, mb := range merged {
					tpb := hotstuffpb.BlockToProto(tb)
					tpb.Commands = mb
					twin := hotstuffpb.BlockFromProto(wire(tpb, &hotstuffpb.Block{}))
					r.Obs("content_twins_compared", 1)
					if twin.Hash() == tb.Hash() || bytes.Equal(twin.ToBytes(), tb.ToBytes()) {
						fail("block", "content-collision", fmt.Sprintf("two blocks with different commands (%d commands vs 1 command whose data embeds the second header as %s) have the same bytes-to-sign / hash", len(two.Commands), names[ti]))
					}
				}
			}
			// round trip of the block
			pb := hotstuffpb.BlockToProto(blk)
			back := hotstuffpb.BlockFromProto(wire(pb, &hotstuffpb.Block{}))
			nt := batch != nil || extreme != ""
			r.Eval(nt, fmt.Sprintf("block/%d/%s/%v", shape, extreme, k))
			r.Obs("objects_block", 1)
			if back.Hash() != blk.Hash() {
				fail("block", "hash", fmt.Sprintf("hash changed: batch shape %d, view %d, proposer %d, ts %v (%s)", shape, view, proposer, blk.Timestamp(), extreme))
			} else if !bytes.Equal(back.ToBytes(), blk.ToBytes()) {
				fail("block", "tobytes", "ToBytes changed")
			} else if back.Parent() != blk.Parent() || back.View() != blk.View() || back.Proposer() != blk.Proposer() || qcStr(back.QuorumCert()) != qcStr(blk.QuorumCert()) ||
				!proto.Equal(normBatch(back.Commands()), normBatch(blk.Commands())) {
				fail("block", "fields", "decoded block differs in parent/view/proposer/QC/batch")
			}
			// the wire form determines the block: the same bytes decoded twice (two receivers) name one block, also when
			// a sender left the timestamp out
			for _, strip := range []bool{false, true} {
				wpb := hotstuffpb.BlockToProto(blk)
				if strip {
					wpb.Timestamp = nil
				}
				raw, err := proto.Marshal(wpb)
				if err != nil {
					panic(err)
				}
				var d1, d2 hotstuffpb.Block
				if proto.Unmarshal(raw, &d1) != nil || proto.Unmarshal(raw, &d2) != nil {
					panic("unmarshal of marshalled block failed")
				}
				b1 := hotstuffpb.BlockFromProto(&d1)
				for spin := 0; spin < 50; spin++ {
					_ = time.Now() // let the clock move between the two receivers
				}
				b2 := hotstuffpb.BlockFromProto(&d2)
				r.Obs("wire_decoded_twice", 1)
				if b1.Hash() != b2.Hash() || !bytes.Equal(b1.ToBytes(), b2.ToBytes()) {
					fail("block", "decode-deterministic", fmt.Sprintf("the same wire bytes (timestamp stripped: %v, ts %v) decoded twice give two different blocks", strip, blk.Timestamp()))
				}
			}
			if view >= 1<<32 {
				// an extreme-view block ends the chain (no higher view possible)
				break
			}
			// real QC with q..n signers
			cnt := rng.Range(q, n)
			pm := rng.Perm(n)
			var signers []hotstuff.ID
			for _, x := range pm[:cnt] {
				signers = append(signers, hotstuff.ID(x+1))
			}
			var qc hotstuff.QuorumCert
			var pcs []hotstuff.PartialCert
			if cnt == 1 {
				pc, err := w.M(signers[0]).Auth.CreatePartialCert(blk)
				if err != nil {
					panic(err)
				}
				pcs = []hotstuff.PartialCert{pc}
				qc = hotstuff.NewQuorumCert(pc.Signature(), blk.View(), blk.Hash())
			} else {
				var err error
				qc, pcs, err = w.HonestQC(blk, signers)
				if err != nil {
					panic(err)
				}
			}
			qcs = append(qcs, qc)
			// a second, equally valid certificate for the same block: the same signers in reverse order (another subset when
			// there is room) - replicas may hold different certificates for one block
			if len(signers) >= 2 {
				alt := append([]hotstuff.ID(nil), signers...)
				for a, b := 0, len(alt)-1; a < b; a, b = a+1, b-1 {
					alt[a], alt[b] = alt[b], alt[a]
				}
				if len(signers) < n {
					in := map[hotstuff.ID]bool{}
					for _, id := range signers {
						in[id] = true
					}
					for _, id := range IDs(n) {
						if !in[id] {
							alt[0] = id
							break
						}
					}
				}
				if aq, _, err := w.HonestQC(blk, alt); err == nil {
					altQCs[blk.Hash()] = aq
				}
			}
			pcsAll = append(pcsAll, pcs)
			parent, parentQC = blk, qc
		}
		checkQC := func(tag string, qc hotstuff.QuorumCert) {
			back := hotstuffpb.QuorumCertFromProto(wire(hotstuffpb.QuorumCertToProto(qc), &hotstuffpb.QuorumCert{}))
			r.Obs("objects_qc", 1)
			if qcStr(back) != qcStr(qc) {
				fail("qc", "fields", fmt.Sprintf("%s: %s != %s", tag, qcStr(back), qcStr(qc)))
				return
			}
			v1, v2 := other.Auth.VerifyQuorumCert(qc), other.Auth.VerifyQuorumCert(back)
			if (v1 == nil) != (v2 == nil) {
				fail("qc", "verdict", fmt.Sprintf("%s: verdict %v before, %v after", tag, v1, v2))
			}
			r.Obs("verdict_"+errStr(v1), 1)
		}
		for k, qc := range qcs {
			nsig := qc.Signature().Participants().Len()
			r.Eval(true, fmt.Sprintf("qc/%s/%d/%d", scheme, n, nsig))
			checkQC("honest", qc)
			// invalid variants must stay invalid and unchanged
			checkQC("relabelled-view", hotstuff.NewQuorumCert(qc.Signature(), qc.View()+1, qc.BlockHash()))
			checkQC("other-hash", hotstuff.NewQuorumCert(qc.Signature(), qc.View(), gen.Hash()))
			// a certificate lists its signatures in the order its collector received them: the same signers in descending and in
			// a PRNG order (built entry by entry, not through Combine) are certificates too, and a block that embeds one has
			// the hash its proposer computed
			if scheme != crypto.NameBLS12 && nsig >= 2 && k < len(blocks) {
				ids := Decompose(qc.Signature()).Signers
				desc := append([]hotstuff.ID(nil), ids...)
				sort.Slice(desc, func(a, b int) bool { return desc[a] > desc[b] })
				shuf := make([]hotstuff.ID, len(ids))
				for a, b := range rng.Perm(len(ids)) {
					shuf[a] = ids[b]
				}
				for oi, order := range [][]hotstuff.ID{desc, shuf} {
					oqc := hotstuff.NewQuorumCert(w.assemble(honest(order, blocks[k].ToBytes()), nil, 0), qc.View(), qc.BlockHash())
					checkQC([]string{"signers-descending", "signers-arrival-order"}[oi], oqc)
					child := hotstuff.NewBlock(blocks[k].Hash(), oqc, Batch(31, uint64(k)+1, 1), blocks[k].View()+1, order[0])
					cb := hotstuffpb.BlockFromProto(wire(hotstuffpb.BlockToProto(child), &hotstuffpb.Block{}))
					r.Obs("blocks_embedding_an_unsorted_certificate", 1)
					if cb.Hash() != child.Hash() || !bytes.Equal(cb.ToBytes(), child.ToBytes()) {
						fail("block", "hash", fmt.Sprintf("a block whose certificate lists the signers as %v has another hash after the round trip", order))
					}
				}
			}
			for _, pc := range pcsAll[k] {
				back := hotstuffpb.PartialCertFromProto(wire(hotstuffpb.PartialCertToProto(pc), &hotstuffpb.PartialCert{}))
				r.Obs("objects_pc", 1)
				r.Eval(true, fmt.Sprintf("pc/%s/%d", scheme, pc.Signer()))
				if back.Signer() != pc.Signer() || back.BlockHash() != pc.BlockHash() || !bytes.Equal(back.ToBytes(), pc.ToBytes()) || partsStr(back.Signature()) != partsStr(pc.Signature()) {
					fail("partialcert", "fields", fmt.Sprintf("signer %d->%d", pc.Signer(), back.Signer()))
				}
				v1, v2 := other.Auth.VerifyPartialCert(pc), other.Auth.VerifyPartialCert(back)
				if (v1 == nil) != (v2 == nil) {
					fail("partialcert", "verdict", fmt.Sprintf("verdict %v before, %v after", v1, v2))
				}
			}
		}
		checkQC("genesis", hotstuff.NewQuorumCert(nil, 0, gen.Hash()))
		// --- timeouts, TC, AggQC
		tview := hotstuff.View(rng.Range(1, 50))
		if rng.Chance(1, 6) {
			tview = ^hotstuff.View(0)
		}
		cnt := rng.Range(q, n)
		var tsigners []hotstuff.ID
		for _, x := range rng.Perm(n)[:cnt] {
			tsigners = append(tsigners, hotstuff.ID(x+1))
		}
		qcOf := func(id hotstuff.ID) hotstuff.QuorumCert {
			if len(qcs) == 0 || int(id)%2 == 0 {
				return hotstuff.NewQuorumCert(nil, 0, gen.Hash())
			}
			qc := qcs[int(id)%len(qcs)]
			if aq, ok := altQCs[qc.BlockHash()]; ok && int(id)%3 == 0 {
				return aq // another replica's certificate for the same block
			}
			return qc
		}
		withMsg := rng.Bool()
		tms := w.HonestTimeouts(tview, tsigners, qcOf, withMsg)
		var tc hotstuff.TimeoutCert
		var agg hotstuff.AggregateQC
		haveAgg := false
		if cnt >= 2 {
			var err error
			tc, err = w.M(1).Auth.CreateTimeoutCert(tview, tms)
			if err != nil {
				panic(err)
			}
			if withMsg {
				agg, err = w.M(1).Auth.CreateAggregateQC(tview, tms)
				if err != nil {
					panic(err)
				}
				haveAgg = true
			}
		} else {
			tc = hotstuff.NewTimeoutCert(tms[0].ViewSignature, tview)
			if withMsg {
				agg = hotstuff.NewAggregateQC(map[hotstuff.ID]hotstuff.QuorumCert{tms[0].ID: qcOf(tms[0].ID)}, tms[0].MsgSignature, tview)
				haveAgg = true
			}
		}
		tcStr := func(t hotstuff.TimeoutCert) string {
			return fmt.Sprintf("view=%d sig=%s", t.View(), partsStr(t.Signature()))
		}
		aggStr := func(a hotstuff.AggregateQC) string {
			s := fmt.Sprintf("view=%d sig=%s qcs=", a.View(), partsStr(a.Sig()))
			for _, id := range IDs(n + 1) {
				if qc, ok := a.QCs()[id]; ok {
					s += fmt.Sprintf("[%d:%s]", id, qcStr(qc))
				}
			}
			return s + fmt.Sprint(len(a.QCs()))
		}
		checkTC := func(tag string, t hotstuff.TimeoutCert) {
			back := hotstuffpb.TimeoutCertFromProto(wire(hotstuffpb.TimeoutCertToProto(t), &hotstuffpb.TimeoutCert{}))
			r.Obs("objects_tc", 1)
			if tcStr(back) != tcStr(t) || !bytes.Equal(back.ToBytes(), t.ToBytes()) {
				fail("tc", "fields", fmt.Sprintf("%s: %s != %s", tag, tcStr(back), tcStr(t)))
				return
			}
			v1, v2 := other.Auth.VerifyTimeoutCert(t), other.Auth.VerifyTimeoutCert(back)
			if (v1 == nil) != (v2 == nil) {
				fail("tc", "verdict", fmt.Sprintf("%s: verdict %v before, %v after", tag, v1, v2))
			}
			r.Obs("verdict_"+errStr(v1), 1)
		}
		checkAgg := func(tag string, a hotstuff.AggregateQC) {
			back := hotstuffpb.AggregateQCFromProto(wire(hotstuffpb.AggregateQCToProto(a), &hotstuffpb.AggQC{}))
			r.Obs("objects_aggqc", 1)
			if aggStr(back) != aggStr(a) {
				fail("aggqc", "fields", fmt.Sprintf("%s: %s != %s", tag, aggStr(back), aggStr(a)))
				return
			}
			h1, v1 := other.Auth.VerifyAggregateQC(a)
			h2, v2 := other.Auth.VerifyAggregateQC(back)
			if (v1 == nil) != (v2 == nil) && a.Sig() != nil && w.LibraryDefect(a.Sig(), func(id hotstuff.ID) []byte {
				qc, ok := a.QCs()[id]
				if !ok {
					return nil
				}
				return hotstuff.TimeoutMsg{ID: id, View: a.View(), SyncInfo: hotstuff.NewSyncInfoWith(qc)}.ToBytes()
			}) {
				// batch verification adds the pairs in map order and the pairing library's product is order dependent for
				// rare inputs (vk/blsref.go): two verifications of the same aggregate can disagree
				r.Obs("bls_library_defect_cases_skipped", 1)
				return
			}
			// ties between equal-view QCs are broken by map order; only the view of the high QC is determined
			if (v1 == nil) != (v2 == nil) || (v1 == nil && h1.View() != h2.View()) {
				fail("aggqc", "verdict", fmt.Sprintf("%s: verdict %v/%s before, %v/%s after", tag, v1, qcStr(h1), v2, qcStr(h2)))
			}
			r.Obs("verdict_"+errStr(v1), 1)
		}
		r.Eval(true, fmt.Sprintf("tc/%s/%d/%d/%v", scheme, n, cnt, tview > 1<<60))
		checkTC("honest", tc)
		checkTC("relabelled", hotstuff.NewTimeoutCert(tc.Signature(), tc.View()+1))
		if haveAgg {
			r.Eval(true, fmt.Sprintf("agg/%s/%d/%d", scheme, n, cnt))
			checkAgg("honest", agg)
			checkAgg("relabelled", hotstuff.NewAggregateQC(agg.QCs(), agg.Sig(), agg.View()+1))
			checkAgg("no-qcs", hotstuff.NewAggregateQC(map[hotstuff.ID]hotstuff.QuorumCert{}, agg.Sig(), agg.View()))
		}
		// --- sync infos: every subset
		for mask := 0; mask < 8; mask++ {
			si := hotstuff.NewSyncInfo()
			if mask&1 != 0 {
				si.SetQC(qcOf(1))
			}
			if mask&2 != 0 {
				si.SetTC(tc)
			}
			if mask&4 != 0 {
				if !haveAgg {
					continue
				}
				si.SetAggQC(agg)
			}
			back := hotstuffpb.SyncInfoFromProto(wire(hotstuffpb.SyncInfoToProto(si), &hotstuffpb.SyncInfo{}))
			r.Obs("objects_syncinfo", 1)
			r.Eval(mask != 0, fmt.Sprintf("si/%s/%d", scheme, mask))
			q1, ok1 := si.QC()
			q2, ok2 := back.QC()
			t1, okt1 := si.TC()
			t2, okt2 := back.TC()
			a1, oka1 := si.AggQC()
			a2, oka2 := back.AggQC()
			if ok1 != ok2 || okt1 != okt2 || oka1 != oka2 || (ok1 && qcStr(q1) != qcStr(q2)) || (okt1 && tcStr(t1) != tcStr(t2)) || (oka1 && aggStr(a1) != aggStr(a2)) {
				fail("syncinfo", "fields", fmt.Sprintf("subset mask %d changed: %v -> %v", mask, si, back))
			}
		}
		// --- timeout messages
		for _, tm := range tms {
			back := hotstuffpb.TimeoutMsgFromProto(wire(hotstuffpb.TimeoutMsgToProto(tm), &hotstuffpb.TimeoutMsg{}))
			back.ID = tm.ID // the server sets the sender from the transport identity
			r.Obs("objects_timeoutmsg", 1)
			r.Eval(true, fmt.Sprintf("tm/%s/%v", scheme, withMsg))
			if back.View != tm.View || !bytes.Equal(back.ToBytes(), tm.ToBytes()) || partsStr(back.ViewSignature) != partsStr(tm.ViewSignature) ||
				partsStr(back.MsgSignature) != partsStr(tm.MsgSignature) {
				fail("timeoutmsg", "fields", fmt.Sprintf("timeout message of %d view %d changed", tm.ID, tm.View))
				continue
			}
			v1 := other.Auth.Verify(tm.ViewSignature, tm.View.ToBytes())
			v2 := other.Auth.Verify(back.ViewSignature, back.View.ToBytes())
			if (v1 == nil) != (v2 == nil) {
				fail("timeoutmsg", "verdict", "view signature verdict changed")
			}
			if withMsg {
				v1 = other.Auth.Verify(tm.MsgSignature, tm.ToBytes())
				v2 = other.Auth.Verify(back.MsgSignature, back.ToBytes())
				if v1 != nil && v2 != nil && w.LibraryDefect(tm.MsgSignature, func(hotstuff.ID) []byte { return tm.ToBytes() }) {
					r.Obs("bls_library_defect_cases_skipped", 1)
				} else if (v1 == nil) != (v2 == nil) || v1 != nil {
					fail("timeoutmsg", "msg-verdict", fmt.Sprintf("message signature verdict %v before, %v after", v1, v2))
				}
			}
		}
		// --- proposals
		for k, blk := range blocks {
			pm := hotstuff.ProposeMsg{ID: blk.Proposer(), Block: blk}
			useAgg := haveAgg && k%2 == 0
			if useAgg {
				a := agg
				pm.AggregateQC = &a
			}
			back := hotstuffpb.ProposalFromProto(wire(hotstuffpb.ProposalToProto(pm), &hotstuffpb.Proposal{}))
			r.Obs("objects_proposal", 1)
			r.Eval(true, fmt.Sprintf("prop/%s/%v", scheme, useAgg))
			if back.Block.Hash() != blk.Hash() || (back.AggregateQC != nil) != useAgg || (useAgg && aggStr(*back.AggregateQC) != aggStr(agg)) {
				fail("proposal", "fields", "decoded proposal differs")
				continue
			}
			back.ID = pm.ID
			v1, v2 := other.Auth.VerifyAnyQC(&pm), other.Auth.VerifyAnyQC(&back)
			// VerifyAnyQC demands that the block's QC EQUALS the aggregate's high QC; when the aggregate attests two different
			// certificates of the same (highest) view, which one is "the" high QC depends on map iteration order in the
			// repository - with or without a wire round trip - so the verdict is not a function of the object
			tie := false
			if useAgg {
				var top hotstuff.View
				seen := map[string]bool{}
				for _, qc := range agg.QCs() {
					if qc.View() > top {
						top = qc.View()
					}
				}
				for _, qc := range agg.QCs() {
					if qc.View() == top {
						seen[qcStr(qc)] = true
					}
				}
				tie = len(seen) > 1
			}
			if (v1 == nil) != (v2 == nil) && tie {
				r.Obs("anyqc_verdicts_not_judged_high_qc_tie", 1)
			} else if (v1 == nil) != (v2 == nil) && useAgg && scheme == crypto.NameBLS12 {
				r.Obs("bls_library_defect_cases_skipped", 1) // same order dependence inside VerifyAggregateQC
			} else if (v1 == nil) != (v2 == nil) {
				fail("proposal", "verdict", fmt.Sprintf("VerifyAnyQC %v before, %v after", v1, v2))
			}
		}
		if r.WantSample() && len(blocks) > 0 {
			r.Sample(map[string]any{"scheme": scheme, "n": n, "blocks": len(blocks), "block0": blocks[0].String(), "timeout_view": uint64(tview), "timeout_signers": tsigners, "with_msg_sig": withMsg})
		}
	}
}

func normBatch(b *clientpb.Batch) *clientpb.Batch {
	if b == nil {
		return &clientpb.Batch{}
	}
	return b
}

// WirePartialCert returns the partial certificate as a receiver would decode it from the wire
// (every received vote is a fresh object; signature objects are never shared between messages).
func WirePartialCert(pc hotstuff.PartialCert) hotstuff.PartialCert {
	return hotstuffpb.PartialCertFromProto(wire(hotstuffpb.PartialCertToProto(pc), &hotstuffpb.PartialCert{}))
}
