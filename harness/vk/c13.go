package vk

import (
	"github.com/relab/hotstuff/internal/proto/hotstuffpb"
	"context"
	"fmt"

	"github.com/relab/hotstuff"
	"github.com/relab/hotstuff/core/eventloop"
	"github.com/relab/hotstuff/internal/proto/clientpb"
	"github.com/relab/hotstuff/protocol"
	"github.com/relab/hotstuff/protocol/consensus"
	"github.com/relab/hotstuff/security/blockchain"
	"github.com/relab/hotstuff/security/crypto"
	"github.com/relab/hotstuff/verif/vbase"
)

func init() {
	Register("C13.store", c13Store)
	Register("C13.prune", c13Prune)
}

// genForest makes a random forest in which views grow along parent links, with
// forks, equal views on different branches and gaps.
func genForest(rng *vbase.Rng, k int, equivocate bool) *aForest {
	f := &aForest{Blocks: []aBlock{{ID: 0, Parent: -1, QC: -1}}}
	tip := 0
	for id := 1; id <= k; id++ {
		par := tip
		if rng.Chance(1, 4) {
			par = rng.Intn(id)
		}
		v := f.Blocks[par].View + 1
		if rng.Chance(1, 6) {
			v += rng.Range(1, 2)
		}
		if equivocate && rng.Chance(1, 3) && id > 1 {
			// same view as some existing block on another branch, if compatible with the parent
			o := f.Blocks[1+rng.Intn(id-1)]
			if o.View > f.Blocks[par].View {
				v = o.View
			}
		}
		f.Blocks = append(f.Blocks, aBlock{ID: id, Parent: par, QC: par, View: v})
		if par == tip || rng.Chance(1, 2) {
			tip = id
		}
	}
	return f
}

func c13Store(p vbase.Params, r *vbase.Result) {
	r.Rule = "real Blockchain + stub sender serving a subset of withheld blocks honestly; forests: exhaustive (k<=3, views<=4, every withheld/served subset, all store orders) and random (4..24 blocks, forks, " +
		"equal views on different branches, gaps, missing ancestors); ops: Store (incl. re-store and same-hash clones), LocalGet, Get, Extends for ALL ordered pairs after every store; " +
		"oracle: reference forest (hash-addressed; ancestry by walking obtainable parents); non-trivial: fork or withheld block; distinct: (forest, withheld set, order)"
	logger := NewCapLogger("c13", 0)
	run := func(f *aForest, order []int, served map[int]bool, sigExtra string) {
		rf := buildReal(f)
		el := eventloop.New(logger, 16)
		snd := &StubSender{ID: 1}
		snd.Fetch = func(h hotstuff.Hash) (*hotstuff.Block, bool) {
			if i, ok := rf.byHash[h]; ok && served[i] {
				return rf.blocks[i], true
			}
			return nil, false
		}
		chain := blockchain.New(el, logger, snd)
		stored := map[int]bool{0: true}
		obtainable := func(i int) bool { return stored[i] || served[i] }
		fail := func(rule, msg string) {
			r.Violate(vbase.Sig("store-"+rule), fmt.Sprintf("forest=%+v served=%v order=%v: %s", f.Blocks, served, order, msg),
				map[string]any{"forest": f, "served": served, "order": order})
		}
		refExtends := func(a, b int) bool {
			cur := a
			for {
				if cur == b {
					return true
				}
				par := f.Blocks[cur].Parent
				if par < 0 || !obtainable(par) {
					return false
				}
				cur = par
			}
		}
		checkAll := func(step int) bool {
			for i := range f.Blocks {
				h := rf.blocks[i].Hash()
				lb, lok := chain.LocalGet(h)
				if lok != stored[i] {
					fail("localget", fmt.Sprintf("step %d: LocalGet(block %d) found=%v, reference stored=%v", step, i, lok, stored[i]))
					return false
				}
				if lok && lb.Hash() != h {
					fail("localget-hash", fmt.Sprintf("step %d: LocalGet(hash of %d) returned a block with another hash", step, i))
					return false
				}
				r.Obs("localget", 1)
			}
			for a := range f.Blocks {
				for b := range f.Blocks {
					// Extends may fetch served ancestors into the store: mirror that in the reference afterwards
					got := chain.Extends(rf.blocks[a], rf.blocks[b])
					want := refExtends(a, b)
					r.Obs("extends", 1)
					if got {
						r.Obs("extends_true", 1)
					}
					if got != want {
						fail("extends", fmt.Sprintf("step %d: Extends(block %d, target %d)=%v, reference %v", step, a, b, got, want))
						return false
					}
				}
			}
			for i := range f.Blocks {
				h := rf.blocks[i].Hash()
				gb, gok := chain.Get(h)
				if gok != obtainable(i) {
					fail("get", fmt.Sprintf("step %d: Get(block %d) found=%v, reference obtainable=%v", step, i, gok, obtainable(i)))
					return false
				}
				if gok && gb.Hash() != h {
					fail("get-hash", fmt.Sprintf("step %d: Get(hash of %d) returned a block with another hash", step, i))
					return false
				}
				r.Obs("get", 1)
			}
			return true
		}
		// sync the reference "stored" set with fetch side effects: anything served and reachable by a
		// previous Get/Extends may now be stored. Ask the implementation only through LocalGet and accept
		// either answer for served blocks (the statement does not say whether a fetch is cached).
		syncServed := func() {
			for i := range f.Blocks {
				if served[i] && !stored[i] {
					if _, ok := chain.LocalGet(rf.blocks[i].Hash()); ok {
						stored[i] = true
					}
				}
			}
		}
		if !checkAll(-1) {
			return
		}
		for step, id := range order {
			syncServed()
			chain.Store(rf.blocks[id])
			stored[id] = true
			if step%2 == 1 {
				// re-store: same object, and a clone with the same hash
				chain.Store(rf.blocks[id])
				cl := hotstuff.NewBlock(rf.blocks[id].Parent(), rf.blocks[id].QuorumCert(), rf.blocks[id].Commands(), rf.blocks[id].View(), rf.blocks[id].Proposer())
				cl.SetTimestamp(rf.blocks[id].Timestamp())
				if cl.Hash() == rf.blocks[id].Hash() {
					chain.Store(cl)
					r.Obs("restores", 1)
				}
			}
			syncServed()
			if !checkAll(step) {
				return
			}
			syncServed()
		}
		nt := len(served) > 0 || forestNontrivial(f)
		for i := 1; i < len(f.Blocks); i++ {
			if !obtainable(i) {
				nt = true
			}
		}
		r.Eval(nt, fmt.Sprintf("%+v|%v|%v|%s", f.Blocks, served, order, sigExtra))
		if nt && len(f.Blocks) > 4 && r.WantSample() {
			r.Sample(map[string]any{"forest": f.Blocks, "served": served, "store_order": order})
		}
	}
	// exhaustive small
	idx := 0
	for k := 1; k <= 3; k++ {
		enumShapes(k, 4, func(f *aForest) {
			for mask := 0; mask < 1<<(2*k); mask++ {
				// per block: 0 stored, 1 withheld-unserved, 2 withheld-served (3 unused)
				served := map[int]bool{}
				var present []int
				valid := true
				for i := 1; i <= k; i++ {
					st := (mask >> (2 * (i - 1))) & 3
					switch st {
					case 0:
						present = append(present, i)
					case 1:
					case 2:
						served[i] = true
					default:
						valid = false
					}
				}
				if !valid {
					continue
				}
				idx++
				if !p.Mine(idx) {
					continue
				}
				if len(present) == 0 {
					run(f, nil, served, "")
					continue
				}
				permutations(present, func(order []int) { run(f, order, served, "") })
			}
		})
	}
	r.Exhaustive = true
	n := p.N(16000, 600000)
	for i := 0; i < n; i++ {
		rng := vbase.NewRng(p.Seed, "C13.store", p.Shard, i)
		f := genForest(rng, rng.Range(4, 24), true)
		served := map[int]bool{}
		var present []int
		for id := 1; id < len(f.Blocks); id++ {
			switch rng.Intn(8) {
			case 0:
				served[id] = true
			case 1: // withheld, unserved
			default:
				present = append(present, id)
			}
		}
		pm := rng.Perm(len(present))
		order := make([]int, len(present))
		if rng.Bool() {
			copy(order, present)
		} else {
			for a, b := range pm {
				order[a] = present[b]
			}
		}
		run(f, order, served, "")
	}
}

// enumShapes enumerates forests (parent among earlier, view in (parent.view, maxView], QC = parent).
func enumShapes(k, maxView int, emit func(f *aForest)) {
	blocks := make([]aBlock, k+1)
	blocks[0] = aBlock{ID: 0, Parent: -1, QC: -1}
	var rec func(i int)
	rec = func(i int) {
		if i > k {
			emit(&aForest{Blocks: append([]aBlock(nil), blocks...)})
			return
		}
		for par := 0; par < i; par++ {
			for v := blocks[par].View + 1; v <= maxView; v++ {
				blocks[i] = aBlock{ID: i, Parent: par, QC: par, View: v}
				rec(i + 1)
			}
		}
	}
	rec(1)
}

// scriptRuler is a CommitRuler whose answer is set by the scenario (the Committer
// under test is real; what to commit is the scenario's choice).
type scriptRuler struct{ next *hotstuff.Block }

func (s *scriptRuler) CommitRule(*hotstuff.Block) *hotstuff.Block {
	n := s.next
	s.next = nil
	return n
}

var _ consensus.CommitRuler = (*scriptRuler)(nil)

func c13Prune(p vbase.Params, r *vbase.Result) {
	r.Rule = "real Committer + Blockchain driven by a scripted commit rule over random forests with equivocation (two blocks in one view) and gaps: blocks are stored through TryCommit in random " +
		"(mostly causal) order and ancestors-or-self are committed along one branch; CommitEvent/AbortEvent observed on the event loop; oracle: every aborted block is off the committed chain, " +
		"no block aborted twice, commit events form the parent chain; Extends for sampled pairs between commit-prunes and for all ordered pairs after the last one (true only for blocks on the parent chain; false only when a block between is not obtainable); non-trivial: forest with a fork; distinct: (forest, order, commit points)"
	n := p.N(80000, 4000000)
	w := NewWorld(1, crypto.NameEDDSA, 0)
	for i := 0; i < n; i++ {
		rng := vbase.NewRng(p.Seed, "C13.prune", p.Shard, i)
		f := genForest(rng, rng.Range(3, 18), true)
		rf := buildReal(f)
		logger := NewCapLogger("c13p", 0)
		el := eventloop.New(logger, 1000)
		snd := &StubSender{ID: 1}
		// some blocks are never delivered as proposals: the committer obtains them through block fetch when it walks the chain
		fetchOnly := map[int]bool{}
		if rng.Chance(1, 2) {
			for id := 1; id < len(f.Blocks); id++ {
				if rng.Chance(1, 4) {
					fetchOnly[id] = true
				}
			}
		}
		snd.Fetch = func(h hotstuff.Hash) (*hotstuff.Block, bool) {
			if i, ok := rf.byHash[h]; ok && fetchOnly[i] {
				return rf.blocks[i], true
			}
			return nil, false
		}
		chain := blockchain.New(el, logger, snd)
		m := w.M(1)
		vs, err := protocol.NewViewStates(chain, m.Auth)
		if err != nil {
			panic(err)
		}
		ruler := &scriptRuler{}
		cm := consensus.NewCommitter(el, logger, chain, vs, ruler)
		var commits []int
		aborted := map[int]int{}
		var abortOrder []int
		cmdToBlock := map[string]int{}
		for id := 1; id < len(f.Blocks); id++ {
			cmdToBlock[string(rf.blocks[id].Commands().Commands[0].Data)] = id
		}
		eventloop.Register(el, func(e hotstuff.CommitEvent) { commits = append(commits, rf.byHash[e.Block.Hash()]) })
		eventloop.Register(el, func(e clientpb.AbortEvent) {
			for _, c := range e.Batch.GetCommands() {
				id := cmdToBlock[string(c.Data)]
				aborted[id]++
				abortOrder = append(abortOrder, id)
			}
		})
		// store order: causal with occasional swaps
		order := make([]int, 0, len(f.Blocks)-1)
		for id := 1; id < len(f.Blocks); id++ {
			if !fetchOnly[id] {
				order = append(order, id)
			}
		}
		if len(order) == 0 {
			continue
		}
		if rng.Chance(1, 3) {
			for s := 0; s < 3; s++ {
				a := rng.Intn(len(order))
				b := rng.Intn(len(order))
				order[a], order[b] = order[b], order[a]
			}
		}
		committed := 0
		onCommitted := map[int]bool{0: true}
		stored := map[int]bool{0: true}
		var trace []string
		bad := false
		// ancestry queries between and after commit-prunes. Pruning removes blocks, so "false" is only judged when every
		// block on the path is still obtainable; "true" for a target that is not on the parent chain is wrong whatever was pruned.
		checkExtends := func(a, b int, when string) bool {
			isAnc, pathOK := false, true
			for cur := a; ; {
				if cur == b {
					isAnc = true
					break
				}
				par := f.Blocks[cur].Parent
				if par < 0 || f.Blocks[par].View < f.Blocks[b].View {
					break
				}
				if _, ok := chain.LocalGet(rf.blocks[par].Hash()); !ok && !fetchOnly[par] {
					pathOK = false
				}
				cur = par
			}
			got := chain.Extends(rf.blocks[a], rf.blocks[b])
			r.Obs("extends_after_prune", 1)
			if got && !isAnc {
				r.Violate(vbase.Sig("prune-extends-true-for-non-ancestor"), fmt.Sprintf("%s: Extends(block %d (view %d), target %d (view %d)) = true, but the target is not on the block's parent chain; forest=%+v trace=%v",
					when, a, f.Blocks[a].View, b, f.Blocks[b].View, f.Blocks, trace), map[string]any{"forest": f.Blocks, "trace": trace, "a": a, "b": b})
				return false
			}
			if !got && isAnc && pathOK {
				r.Violate(vbase.Sig("prune-extends-false-for-ancestor"), fmt.Sprintf("%s: Extends(block %d, target %d) = false although the target is on the parent chain and every block between is obtainable; forest=%+v trace=%v",
					when, a, b, f.Blocks, trace), map[string]any{"forest": f.Blocks, "trace": trace, "a": a, "b": b})
				return false
			}
			if got {
				r.Obs("extends_after_prune_true", 1)
			}
			return true
		}
		interleave := rng.Chance(1, 2)
		for _, id := range order {
			// choose a commit target: an ancestor-or-self of id, strictly above the committed block,
			// on the committed block's branch, all of whose ancestors down to it are stored.
			stored[id] = true
			var target = -1
			if rng.Chance(2, 3) {
				var cands []int
				cur := id
				path := []int{}
				okPath := true
				for cur != committed && cur > 0 {
					if !stored[cur] && !fetchOnly[cur] {
						okPath = false
						break
					}
					path = append(path, cur)
					cur = f.Blocks[cur].Parent
				}
				if okPath && cur == committed {
					cands = path
				}
				if len(cands) > 0 {
					target = cands[rng.Intn(len(cands))]
				}
			}
			doomed := -1
			if target < 0 && rng.Chance(1, 4) {
				// a commit that cannot succeed: the rule selects an ancestor-or-self of id whose path down to the committed block
				// passes through a block that is neither stored nor obtainable. Nothing may be committed, and nothing reported
				// abandoned that a later, successful commit puts on the chain (judged at the end against the final chain).
				cur, gap := id, false
				var path []int
				for cur != committed && cur > 0 {
					if !stored[cur] && !fetchOnly[cur] {
						gap = true
					}
					path = append(path, cur)
					cur = f.Blocks[cur].Parent
				}
				if gap && cur == committed && len(path) > 0 {
					doomed = path[rng.Intn(len(path))]
					// only selections above the gap are doomed
					ok := false
					for c2 := doomed; c2 != committed && c2 > 0; c2 = f.Blocks[c2].Parent {
						if !stored[c2] && !fetchOnly[c2] {
							ok = true
						}
					}
					if !ok || (!stored[doomed] && !fetchOnly[doomed]) {
						doomed = -1
					}
				}
			}
			if doomed >= 0 {
				ruler.next = rf.blocks[doomed]
				before := len(commits)
				_ = cm.TryCommit(rf.blocks[id])
				for el.Tick(context.Background()) {
				}
				trace = append(trace, fmt.Sprintf("store(%d)doomed-commit(%d)", id, doomed))
				r.Obs("commits_that_cannot_succeed", 1)
				if len(commits) != before {
					r.Violate("prune-commit-across-gap", fmt.Sprintf("a commit of block %d whose ancestry is not obtainable emitted CommitEvents %v; forest=%+v trace=%v", doomed, commits[before:], f.Blocks, trace), map[string]any{"forest": f.Blocks, "trace": trace})
					bad = true
					break
				}
				ruler.next = nil
				continue
			}
			if target >= 0 {
				ruler.next = rf.blocks[target]
				if rng.Chance(1, 3) {
					// the store is content-addressed: an equal block (same hash) decoded separately from the wire names the same
					// block as the stored instance
					ruler.next = hotstuffpb.BlockFromProto(hotstuffpb.BlockToProto(rf.blocks[target]))
					r.Obs("commits_with_a_separately_decoded_instance", 1)
				}
			}
			before := len(commits)
			err := cm.TryCommit(rf.blocks[id])
			for el.Tick(context.Background()) {
			}
			trace = append(trace, fmt.Sprintf("store(%d)commit(%d)", id, target))
			if target >= 0 {
				if err != nil {
					r.Violate("prune-commit-error", fmt.Sprintf("TryCommit failed although all ancestors are stored: %v; forest=%+v trace=%v", err, f.Blocks, trace), map[string]any{"forest": f.Blocks, "trace": trace})
					bad = true
					break
				}
				// expected new commits: path from old committed (exclusive) to target, oldest first
				var exp []int
				for cur := target; cur != committed; cur = f.Blocks[cur].Parent {
					exp = append([]int{cur}, exp...)
				}
				got := commits[before:]
				if fmt.Sprint(got) != fmt.Sprint(exp) {
					r.Violate("prune-commit-chain", fmt.Sprintf("commit of block %d emitted CommitEvents %v, expected chain %v; forest=%+v trace=%v", target, got, exp, f.Blocks, trace), map[string]any{"forest": f.Blocks, "trace": trace})
					bad = true
					break
				}
				for _, x := range exp {
					onCommitted[x] = true
					stored[x] = true // fetched ancestors are now in the store
				}
				committed = target
				if vs.CommittedBlock().Hash() != rf.blocks[target].Hash() {
					r.Violate("prune-committed-state", fmt.Sprintf("CommittedBlock is not the committed target %d", target), map[string]any{"forest": f.Blocks, "trace": trace})
					bad = true
					break
				}
				r.Obs("commits", int64(len(exp)))
			}
			for id2, c := range aborted {
				if c > 1 {
					r.Violate("prune-abort-twice", fmt.Sprintf("block %d reported abandoned %d times; forest=%+v trace=%v", id2, c, f.Blocks, trace), map[string]any{"forest": f.Blocks, "trace": trace})
					bad = true
				}
			}
			if interleave && !bad {
				for k := 0; k < 4 && !bad; k++ {
					bad = !checkExtends(rng.Intn(len(f.Blocks)), rng.Intn(len(f.Blocks)), "between commits")
				}
			}
			if bad {
				break
			}
		}
		for a := 0; a < len(f.Blocks) && !bad; a++ {
			for b := 0; b < len(f.Blocks) && !bad; b++ {
				bad = !checkExtends(a, b, "after the last commit")
			}
		}
		if !bad {
			// judged against the final committed chain (it only grows, so this subsumes every earlier point)
			for _, id2 := range abortOrder {
				if onCommitted[id2] {
					// equivocation anywhere in the forest (two blocks sharing a view)
					eq := false
					seenView := map[int]bool{}
					for _, o := range f.Blocks {
						if seenView[o.View] {
							eq = true
						}
						seenView[o.View] = true
					}
					r.Violate(vbase.Sig("prune-abort-committed", "equivocation", eq),
						fmt.Sprintf("block %d (view %d) was reported abandoned (AbortEvent) but is on the committed chain; forest=%+v trace=%v", id2, f.Blocks[id2].View, f.Blocks, trace),
						map[string]any{"forest": f.Blocks, "trace": trace})
					break
				}
			}
		}
		r.Obs("aborts", int64(len(abortOrder)))
		nt := false
		ch := map[int]int{}
		for _, b := range f.Blocks[1:] {
			ch[b.Parent]++
			if ch[b.Parent] > 1 {
				nt = true
			}
		}
		r.Eval(nt, fmt.Sprintf("%+v|%v", f.Blocks, trace))
		if nt && len(abortOrder) > 0 && r.WantSample() {
			r.Sample(map[string]any{"forest": f.Blocks, "trace": trace, "commit_events": commits, "abort_events": abortOrder})
		}
	}
}
