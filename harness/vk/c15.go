package vk

import (
	"context"
	"fmt"
	"sync"
	"sync/atomic"
	"time"

	"github.com/relab/hotstuff/internal/proto/clientpb"
	"github.com/relab/hotstuff/verif/vbase"
)

func init() {
	Register("C15.seq", c15Seq)
	Register("C15.concurrent", c15Concurrent)
}

type cmdKey struct {
	C uint32
	S uint64
}

// refCache is the reference model: FIFO of accepted commands + per-client proposed marker.
type refCache struct {
	batch  int
	fifo   []cmdKey
	marker map[uint32]uint64
}

func (m *refCache) add(k cmdKey) {
	if k.S <= m.marker[k.C] {
		return
	}
	m.fifo = append(m.fifo, k)
}

func (m *refCache) proposed(ks []cmdKey) {
	for _, k := range ks {
		if k.S > m.marker[k.C] {
			m.marker[k.C] = k.S
		}
	}
}

// get returns the batch a Get must return, or nil if it must block.
func (m *refCache) get() []cmdKey {
	var out []cmdKey
	used := 0
	for i, k := range m.fifo {
		if k.S <= m.marker[k.C] {
			continue
		}
		out = append(out, k)
		if len(out) == m.batch {
			used = i + 1
			break
		}
	}
	if len(out) < m.batch {
		return nil
	}
	m.fifo = m.fifo[used:]
	return out
}

func keysOf(b *clientpb.Batch) []cmdKey {
	var ks []cmdKey
	for _, c := range b.GetCommands() {
		ks = append(ks, cmdKey{c.GetClientID(), c.GetSequenceNumber()})
	}
	return ks
}

type c15Op struct {
	Kind byte // 'A' add, 'P' proposed, 'Q' proposed with a two-command batch, 'G' get, 'X' get with a cancelled context
	K    cmdKey
	K2   cmdKey
}

func (o c15Op) String() string {
	if o.Kind == 'G' {
		return "G"
	}
	if o.Kind == 'X' {
		return "Gcancelled"
	}
	if o.Kind == 'Q' {
		return fmt.Sprintf("P[(%d,%d),(%d,%d)]", o.K.C, o.K.S, o.K2.C, o.K2.S)
	}
	return fmt.Sprintf("%c(%d,%d)", o.Kind, o.K.C, o.K.S)
}

func c15RunSeq(r *vbase.Result, batch int, ops []c15Op) bool {
	cc := clientpb.NewCommandCache(uint32(batch))
	ref := &refCache{batch: batch, marker: map[uint32]uint64{}}
	nt := false
	sawP := false
	fail := func(rule, msg string, step int) bool {
		r.Violate("cmdcache-"+rule, fmt.Sprintf("batch size %d, ops %v, step %d: %s", batch, ops, step, msg), map[string]any{"batch": batch, "ops": fmt.Sprint(ops)})
		return false
	}
	for i, op := range ops {
		switch op.Kind {
		case 'A':
			cc.Add(&clientpb.Command{ClientID: op.K.C, SequenceNumber: op.K.S, Data: []byte(fmt.Sprintf("%d/%d", op.K.C, op.K.S))})
			ref.add(op.K)
		case 'P':
			cc.Proposed(&clientpb.Batch{Commands: []*clientpb.Command{{ClientID: op.K.C, SequenceNumber: op.K.S}}})
			ref.proposed([]cmdKey{op.K})
			sawP = true
		case 'Q':
			// a proposed batch of two commands (blocks of other leaders hold several commands, possibly some that are marked already)
			cc.Proposed(&clientpb.Batch{Commands: []*clientpb.Command{{ClientID: op.K.C, SequenceNumber: op.K.S}, {ClientID: op.K2.C, SequenceNumber: op.K2.S}}})
			ref.proposed([]cmdKey{op.K, op.K2})
			sawP = true
		case 'X':
			// a Get whose context is already cancelled (a view change racing the request): it may return the context error or,
			// if a batch is ready, that batch - and whichever it does, it must not swallow the wake-up of the next Get
			ctx, cancel := context.WithCancel(context.Background())
			cancel()
			b, err := cc.Get(ctx)
			r.Obs("gets_with_cancelled_context", 1)
			if err == nil {
				want := ref.get()
				if want == nil || fmt.Sprint(keysOf(b)) != fmt.Sprint(want) {
					return fail("wrong-batch", fmt.Sprintf("Get with a cancelled context returned %v, the model's batch is %v", keysOf(b), want), i)
				}
				r.Obs("batches", 1)
			}
		case 'G':
			if sawP {
				nt = true
			}
			want := ref.get()
			r.Obs("gets", 1)
			if want == nil {
				// must block: give it a short deadline; the only legal outcome is the context error
				ctx, cancel := context.WithTimeout(context.Background(), 150*time.Microsecond)
				b, err := cc.Get(ctx)
				cancel()
				r.Obs("gets_expected_to_block", 1)
				if err == nil {
					return fail("partial-or-stale", fmt.Sprintf("Get returned %v although fewer than %d fresh commands are cached (must block until cancelled)", keysOf(b), batch), i)
				}
				continue
			}
			type res struct {
				b   *clientpb.Batch
				err error
			}
			ch := make(chan res, 1)
			ctx, cancel := context.WithCancel(context.Background())
			go func() {
				b, err := cc.Get(ctx)
				ch <- res{b, err}
			}()
			var got res
			select {
			case got = <-ch:
			case <-time.After(30 * time.Second):
				// logically decided: no operation in flight and the model holds a full fresh batch; the wait only confirms
				cancel()
				<-ch
				return fail("blocked-with-batch", fmt.Sprintf("Get still blocked after 30s although the oldest fresh commands %v form a full batch", want), i)
			}
			cancel()
			if got.err != nil {
				return fail("get-error", fmt.Sprintf("Get failed with %v although a full batch %v is available", got.err, want), i)
			}
			if fmt.Sprint(keysOf(got.b)) != fmt.Sprint(want) {
				return fail("wrong-batch", fmt.Sprintf("Get returned %v, the oldest fresh commands in arrival order are %v", keysOf(got.b), want), i)
			}
			r.Obs("batches", 1)
		}
	}
	r.Eval(nt, fmt.Sprint(batch, ops))
	return true
}

func c15Seq(p vbase.Params, r *vbase.Result) {
	maxLen := 5
	if p.Thorough() {
		maxLen = 6
	}
	r.Rule = fmt.Sprintf("real CommandCache vs reference (FIFO of accepted commands + per-client proposed marker): ALL sequences over add/mark-proposed/get/get-with-cancelled-context for 2 clients x seq 1..2, batch sizes 1..3, length <= %d; "+
		"random sequences (3 clients, seq 1..6, length <= 80; every third with client ids and sequence numbers spread over the 32/64-bit range, agreeing in one half); a Get the model says must block is given a 150us deadline and may only return the context error; a Get the model says must return is awaited "+
		"(30s watchdog) and must return exactly the model's batch; non-trivial: a mark-proposed before a get; distinct: (batch size, sequence)", maxLen)
	r.Exhaustive = true
	var alpha []c15Op
	for c := uint32(1); c <= 2; c++ {
		for s := uint64(1); s <= 2; s++ {
			alpha = append(alpha, c15Op{Kind: 'A', K: cmdKey{c, s}}, c15Op{Kind: 'P', K: cmdKey{c, s}})
		}
	}
	alpha = append(alpha, c15Op{Kind: 'G'}, c15Op{Kind: 'X'})
	// two-command proposed batches: an (often already marked) command of client 1 followed by one of client 2, and the reverse
	alpha = append(alpha, c15Op{Kind: 'Q', K: cmdKey{1, 1}, K2: cmdKey{2, 2}}, c15Op{Kind: 'Q', K: cmdKey{2, 1}, K2: cmdKey{1, 2}})
	idx := 0
	for batch := 1; batch <= 3; batch++ {
		for l := 1; l <= maxLen; l++ {
			total := 1
			for i := 0; i < l; i++ {
				total *= len(alpha)
			}
			ops := make([]c15Op, l)
			for code := 0; code < total; code++ {
				idx++
				if !p.Mine(idx) {
					continue
				}
				c := code
				hasG := false
				for i := 0; i < l; i++ {
					ops[i] = alpha[c%len(alpha)]
					if ops[i].Kind == 'G' {
						hasG = true
					}
					c /= len(alpha)
				}
				if !hasG {
					continue // nothing observable
				}
				if !c15RunSeq(r, batch, ops) && r.NViolations() > 2 {
					return
				}
			}
		}
	}
	n := p.N(8000, 400000)
	for i := 0; i < n; i++ {
		rng := vbase.NewRng(p.Seed, "C15.seq", p.Shard, i)
		batch := rng.Range(1, 4)
		l := rng.Range(8, 80)
		ops := make([]c15Op, l)
		next := map[uint32]uint64{}
		for k := range ops {
			c := uint32(rng.Range(1, 3))
			switch rng.Weighted([]int{6, 2, 3, 1, 2}) {
			case 0:
				s := next[c] + 1
				if rng.Chance(1, 5) {
					s = uint64(rng.Range(1, 6))
				} else {
					next[c] = s
				}
				ops[k] = c15Op{Kind: 'A', K: cmdKey{c, s}}
			case 1:
				ops[k] = c15Op{Kind: 'P', K: cmdKey{c, uint64(rng.Range(1, 6))}}
			case 2:
				ops[k] = c15Op{Kind: 'G'}
			case 3:
				ops[k] = c15Op{Kind: 'X'}
			default:
				c2 := uint32(rng.Range(1, 3))
				ops[k] = c15Op{Kind: 'Q', K: cmdKey{c, uint64(rng.Range(1, 6))}, K2: cmdKey{c2, uint64(rng.Range(1, 6))}}
			}
		}
		if i%3 == 2 {
			// identifiers are arbitrary 32- and 64-bit numbers: the same program with client ids and sequence numbers that agree
			// in their low (or high) halves and differ elsewhere
			cm := [][]uint32{{0, 1, 1<<16 | 1, 1<<31 | 1}, {0, 1 << 16, 2 << 16, 3 << 16}, {0, ^uint32(0), ^uint32(0) - 1, 0}}[rng.Intn(3)]
			sb := map[uint32]uint64{}
			for c := uint32(1); c <= 3; c++ {
				sb[c] = []uint64{0, 1 << 32, uint64(c) << 32, 1<<63 - 8, ^uint64(0) - 8}[rng.Intn(5)]
			}
			wide := func(k cmdKey) cmdKey {
				if k.C == 0 {
					return k
				}
				return cmdKey{cm[k.C], sb[k.C] + k.S}
			}
			for k := range ops {
				ops[k].K, ops[k].K2 = wide(ops[k].K), wide(ops[k].K2)
			}
			r.Obs("sequences_with_wide_identifiers", 1)
		}
		if !c15RunSeq(r, batch, ops) && r.NViolations() > 2 {
			return
		}
		if i < 2 {
			r.Sample(map[string]any{"batch_size": batch, "ops": fmt.Sprint(ops)})
		}
	}
}

// c15Concurrent: producers, a marker goroutine and consumers under the race detector.
func c15Concurrent(p vbase.Params, r *vbase.Result) {
	r.Rule = "producers (one client each, ascending sequence numbers), a goroutine marking random prefixes as proposed, and 1-2 consumers calling Get concurrently (race detector on); at quiescence: " +
		"every command handed out at most once, every batch full, per-client order preserved inside and across batches of one consumer, nothing handed out that was at or below its client's marker before the Get was " +
		"called, conservation (handed out + still cached + stale = accepted), and no consumer left parked while a full fresh batch is cached (10s watchdog confirms a logically decided lost wake-up); " +
		"non-trivial: marking enabled; distinct: hand-out order"
	reps := p.N(1600, 40000)
	for i := 0; i < reps; i++ {
		rng := vbase.NewRng(p.Seed, "C15.conc", p.Shard, i)
		batch := rng.Range(1, 4)
		producers := rng.Range(1, 4)
		per := rng.Range(5, 60)
		consumers := rng.Range(1, 2)
		marking := rng.Chance(2, 3)
		cc := clientpb.NewCommandCache(uint32(batch))
		var clock atomic.Int64
		type handout struct {
			consumer int
			keys     []cmdKey
			call     int64
		}
		var hmu sync.Mutex
		var handouts []handout
		type mark struct {
			k   cmdKey
			ret int64
		}
		var marks []mark
		ctx, cancel := context.WithCancel(context.Background())
		var cwg sync.WaitGroup
		for c := 0; c < consumers; c++ {
			cwg.Add(1)
			go func(c int) {
				defer cwg.Done()
				for {
					call := clock.Add(1)
					b, err := cc.Get(ctx)
					if err != nil {
						return
					}
					hmu.Lock()
					handouts = append(handouts, handout{c, keysOf(b), call})
					hmu.Unlock()
				}
			}(c)
		}
		var pwg sync.WaitGroup
		for pr := 1; pr <= producers; pr++ {
			pwg.Add(1)
			go func(pr int) {
				defer pwg.Done()
				for s := 1; s <= per; s++ {
					cc.Add(&clientpb.Command{ClientID: uint32(pr), SequenceNumber: uint64(s)})
				}
			}(pr)
		}
		if marking {
			pwg.Add(1)
			mr := vbase.NewRng(p.Seed, "C15.mark", p.Shard, i)
			go func() {
				defer pwg.Done()
				for k := 0; k < per/3+1; k++ {
					key := cmdKey{uint32(mr.Range(1, producers)), uint64(mr.Range(1, per))}
					cc.Proposed(&clientpb.Batch{Commands: []*clientpb.Command{{ClientID: key.C, SequenceNumber: key.S}}})
					hmu.Lock()
					marks = append(marks, mark{key, clock.Add(1)})
					hmu.Unlock()
				}
			}()
		}
		pwg.Wait()
		// final markers
		marker := map[uint32]uint64{}
		for _, m := range marks {
			if m.k.S > marker[m.k.C] {
				marker[m.k.C] = m.k.S
			}
		}
		freshCached := func() (fresh, total int, readable bool) {
			pc, ok := Peek[[]*clientpb.Command](cc, "cache")
			if !ok {
				return 0, 0, false
			}
			pm, ok := Peek[sync.Mutex](cc, "mut")
			if !ok {
				return 0, 0, false
			}
			pm.Lock()
			defer pm.Unlock()
			for _, c := range *pc {
				total++
				if c.GetSequenceNumber() > marker[c.GetClientID()] {
					fresh++
				}
			}
			return fresh, total, true
		}
		// quiescence: consumers have drained every full fresh batch
		deadline := time.Now().Add(30 * time.Second)
		lost := false
		readable := true
		for {
			fresh, _, ok := freshCached()
			if !ok {
				readable = false
				time.Sleep(20 * time.Millisecond)
				break
			}
			if fresh < batch {
				break
			}
			if time.Now().After(deadline) {
				lost = true
				break
			}
			time.Sleep(100 * time.Microsecond)
		}
		cancel()
		cwg.Wait()
		rep := map[string]any{"case": i, "shard": p.Shard, "batch": batch, "producers": producers, "per": per, "consumers": consumers, "marking": marking}
		if !readable {
			r.Note("CommandCache.cache not readable by Peek: lost-wake-up and conservation sub-checks skipped")
		}
		seen := map[cmdKey]int{}
		var orderSig []cmdKey
		lastBy := map[[2]int]uint64{} // (consumer, client) -> last seq
		bad := false
		for _, h := range handouts {
			if len(h.keys) != batch {
				r.Violate("conc-partial-batch", fmt.Sprintf("batch of %d commands handed out, batch size %d", len(h.keys), batch), rep)
				bad = true
			}
			for _, k := range h.keys {
				seen[k]++
				orderSig = append(orderSig, k)
				if seen[k] > 1 {
					r.Violate("conc-duplicate-handout", fmt.Sprintf("command %v handed out twice", k), rep)
					bad = true
				}
				key := [2]int{h.consumer, int(k.C)}
				if k.S <= lastBy[key] {
					r.Violate("conc-client-order", fmt.Sprintf("consumer %d received client %d's command %d after %d", h.consumer, k.C, k.S, lastBy[key]), rep)
					bad = true
				}
				lastBy[key] = k.S
				// stale at hand-out: a mark that completed before this Get was even called
				for _, m := range marks {
					if m.k.C == k.C && m.k.S >= k.S && m.ret < h.call {
						r.Violate("conc-stale-handout", fmt.Sprintf("command %v handed out although (%d,%d) had been marked proposed before the Get was called", k, m.k.C, m.k.S), rep)
						bad = true
					}
				}
			}
		}
		if lost && !bad {
			fresh, total, _ := freshCached()
			r.Violate("conc-lost-wakeup", fmt.Sprintf("producers finished, %d fresh commands (of %d cached) form a full batch of %d, but no consumer returned within 10s", fresh, total, batch), rep)
			bad = true
		}
		if readable && !bad {
			fresh, total, _ := freshCached()
			handed := len(seen)
			accepted := producers * per // upper bound: some adds may have been rejected as stale
			if handed+total > accepted {
				r.Violate("conc-conservation", fmt.Sprintf("handed out %d + cached %d > added %d", handed, total, accepted), rep)
			}
			// no fresh command lost: every added command is handed out, still cached, or at/below the final marker
			inCache := map[cmdKey]bool{}
			if pc, ok := Peek[[]*clientpb.Command](cc, "cache"); ok {
				for _, c := range *pc {
					inCache[cmdKey{c.GetClientID(), c.GetSequenceNumber()}] = true
				}
			}
			for pr := 1; pr <= producers; pr++ {
				for s := 1; s <= per; s++ {
					k := cmdKey{uint32(pr), uint64(s)}
					if seen[k] == 0 && !inCache[k] && k.S > marker[k.C] {
						r.Violate("conc-lost-command", fmt.Sprintf("fresh command %v was neither handed out nor is it still cached (final marker of client %d is %d)", k, k.C, marker[k.C]), rep)
						bad = true
					}
				}
			}
			_ = fresh
		}
		r.Eval(marking, fmt.Sprint(batch, orderSig))
		if r.NViolations() > 2 {
			return
		}
		r.Obs("commands_added", int64(producers*per))
		r.Obs("commands_handed_out", int64(len(seen)))
		r.Obs("batches", int64(len(handouts)))
		if r.WantSample() {
			r.Sample(map[string]any{"batch": batch, "producers": producers, "per_producer": per, "consumers": consumers, "marking": marking, "batches_handed_out": len(handouts)})
		}
	}
}
