package vk

import (
	"fmt"

	"github.com/relab/hotstuff"
	"github.com/relab/hotstuff/core"
	"github.com/relab/hotstuff/internal/tree"
	"github.com/relab/hotstuff/protocol"
	"github.com/relab/hotstuff/protocol/leaderrotation"
	"github.com/relab/hotstuff/security/crypto"
	"github.com/relab/hotstuff/verif/vbase"
)

func init() {
	Register("C16.stateless", c16Stateless)
	Register("C16.history", c16History)
}

func safeLeader(lr leaderrotation.LeaderRotation, v hotstuff.View) (id hotstuff.ID, panicked any) {
	defer func() {
		if e := recover(); e != nil {
			panicked = e
		}
	}()
	return lr.GetLeader(v), nil
}

func c16Stateless(p vbase.Params, r *vbase.Result) {
	r.Rule = "round-robin, fixed, tree-leader built through leaderrotation.New on two independently configured replicas, n=1..64, views 0..4096 and windows around 2^32, 2^63, 2^64-1: " +
		"same answer on both, answer in 1..n, round-robin sliding window of n consecutive views hits every id exactly once, no panic; non-trivial: n>=2; distinct: (scheme,n,window)"
	r.Exhaustive = true
	windows := [][2]uint64{{0, 4096}, {1<<32 - 300, 1<<32 + 300}, {1<<63 - 300, 1<<63 + 300}, {^uint64(0) - 600, ^uint64(0)}}
	for n := 1; n <= 64; n++ {
		if !p.Mine(n) {
			continue
		}
		mk := func(id hotstuff.ID) *core.RuntimeConfig {
			cfg := core.NewRuntimeConfig(id, nil, core.WithKauriTree(tree.NewSimple(id, 2, IDs(n))))
			for _, x := range IDs(n) {
				cfg.AddReplica(&hotstuff.ReplicaInfo{ID: x})
			}
			return cfg
		}
		cfgA, cfgB := mk(1), mk(hotstuff.ID(n))
		for _, name := range []string{leaderrotation.NameRoundRobin, leaderrotation.NameFixed, leaderrotation.NameTree, ""} {
			a, errA := leaderrotation.New(NewCapLogger("a", 0), cfgA, nil, nil, name, 3)
			b, errB := leaderrotation.New(NewCapLogger("b", 0), cfgB, nil, nil, name, 3)
			if errA != nil || errB != nil {
				r.Violate("leader-factory", fmt.Sprintf("leaderrotation.New(%q): %v %v", name, errA, errB), nil)
				continue
			}
			for wi, win := range windows {
				count := map[hotstuff.ID]int{}
				var ring []hotstuff.ID
				bad := false
				for v := win[0]; ; v++ {
					la, pa := safeLeader(a, hotstuff.View(v))
					lb, pb := safeLeader(b, hotstuff.View(v))
					r.Obs("queries", 2)
					if pa != nil || pb != nil {
						r.Violate(vbase.Sig("leader-panic", "scheme", name), fmt.Sprintf("%s n=%d view=%d panics: %v %v", name, n, v, pa, pb), map[string]any{"n": n, "view": v})
						bad = true
					} else if la != lb {
						r.Violate(vbase.Sig("leader-disagree", "scheme", name), fmt.Sprintf("%s n=%d view=%d: replica 1 says %d, replica %d says %d", name, n, v, la, n, lb), map[string]any{"n": n, "view": v})
						bad = true
					} else if la < 1 || int(la) > n {
						r.Violate(vbase.Sig("leader-unknown", "scheme", name), fmt.Sprintf("%s n=%d view=%d: leader %d is not a configured replica", name, n, v, la), map[string]any{"n": n, "view": v})
						bad = true
					}
					if name == leaderrotation.NameRoundRobin || name == "" {
						ring = append(ring, la)
						count[la]++
						if len(ring) > n {
							count[ring[0]]--
							if count[ring[0]] == 0 {
								delete(count, ring[0])
							}
							ring = ring[1:]
						}
						if len(ring) == n && len(count) != n && !bad {
							r.Violate("round-robin-window", fmt.Sprintf("round-robin n=%d: the %d views ending at %d hit only %d distinct leaders: %v", n, n, v, len(count), ring), map[string]any{"n": n, "view": v})
							bad = true
						}
					}
					if bad || v == win[1] {
						break
					}
				}
				r.Eval(n >= 2, fmt.Sprintf("%s/%d/%d", name, n, wi))
			}
		}
		if n == 4 || n == 7 {
			r.Sample(map[string]any{"n": n, "schemes": []string{"round-robin", "fixed", "tree-leader"}, "windows": windows})
		}
	}
}

// fakeQC builds a QC object carrying the given signer set (leader rotation reads
// only the participant list; it never verifies).
func fakeQC(b *hotstuff.Block, signers []hotstuff.ID) hotstuff.QuorumCert {
	var sigs []*crypto.ECDSASignature
	for _, id := range signers {
		sigs = append(sigs, crypto.RestoreECDSASignature([]byte{byte(id)}, id))
	}
	return hotstuff.NewQuorumCert(crypto.NewMulti(sigs...), b.View(), b.Hash())
}

func c16History(p vbase.Params, r *vbase.Result) {
	r.Rule = "carousel and reputation on generated committed chains (real blocks, QCs with random signer sets >= q, random proposers, view gaps), shared seeds, and query sequences " +
		"(active view = head+chainLength, repeated, older, far future): two instances fed the same UpdateCommittedBlock/query sequence answer identically; active carousel answer is a signer " +
		"of the head's QC that proposed none of the last f committed blocks; carousel answers in 1..n; no panic; non-trivial: answered by the history branch; distinct: (scheme,n,seed,chain,queries)"
	cases := p.N(24000, 1500000)
	for i := 0; i < cases; i++ {
		rng := vbase.NewRng(p.Seed, "C16.history", p.Shard, i)
		n := []int{1, 2, 3, 4, 5, 7, 10, 13}[rng.Intn(8)]
		chainLen := []int{2, 3}[rng.Intn(2)]
		seed := int64(rng.Intn(1000)) - 500
		w := NewWorld(n, crypto.NameECDSA, 0, core.WithSharedRandomSeed(seed))
		q, f := RefQuorum(n), RefFaulty(n)
		type inst struct {
			vs  *protocol.ViewStates
			car leaderrotation.LeaderRotation
			rep leaderrotation.LeaderRotation
		}
		mk := func(m *Member) inst {
			vs, err := protocol.NewViewStates(m.Chain, m.Auth)
			if err != nil {
				panic(err)
			}
			car, _ := leaderrotation.New(m.Logger, m.Cfg, m.Chain, vs, leaderrotation.NameCarousel, chainLen)
			rep, _ := leaderrotation.New(m.Logger, m.Cfg, m.Chain, vs, leaderrotation.NameReputation, chainLen)
			return inst{vs, car, rep}
		}
		a, b := mk(w.M(1)), mk(w.M(hotstuff.ID(n)))
		if rng.Bool() {
			// production wiring order: the rotation is constructed BEFORE the replicas are added to the configuration
			m := w.M(hotstuff.ID(n))
			late := core.NewRuntimeConfig(m.ID, w.Keys[m.ID], core.WithSharedRandomSeed(seed))
			vs, err := protocol.NewViewStates(m.Chain, m.Auth)
			if err != nil {
				panic(err)
			}
			car, _ := leaderrotation.New(m.Logger, late, m.Chain, vs, leaderrotation.NameCarousel, chainLen)
			rep, _ := leaderrotation.New(m.Logger, late, m.Chain, vs, leaderrotation.NameReputation, chainLen)
			for _, o := range w.Members {
				late.AddReplica(&hotstuff.ReplicaInfo{ID: o.ID, PubKey: w.Keys[o.ID].Public()})
			}
			b = inst{vs, car, rep}
			r.Obs("instances_configured_after_construction", 1)
		}
		// chain
		parent := hotstuff.GetGenesis()
		parentQC := hotstuff.NewQuorumCert(nil, 0, parent.Hash())
		var chain []*hotstuff.Block
		view := hotstuff.View(0)
		clen := rng.Range(1, 12)
		for k := 0; k < clen; k++ {
			view += hotstuff.View(1)
			if rng.Chance(1, 4) {
				view += hotstuff.View(rng.Range(1, 3))
			}
			blk := hotstuff.NewBlock(parent.Hash(), parentQC, Batch(1, uint64(k+1), 1), view, hotstuff.ID(rng.Range(1, n)))
			w.StoreAll(blk)
			chain = append(chain, blk)
			// signer set of the QC that will certify blk (embedded in the next block)
			perm := rng.Perm(n)
			cnt := rng.Range(q, n)
			var signers []hotstuff.ID
			for _, x := range perm[:cnt] {
				signers = append(signers, hotstuff.ID(x+1))
			}
			parentQC = fakeQC(blk, signers)
			parent = blk
		}
		historyHits := 0
		var trace []string
		head := hotstuff.GetGenesis()
		hi := -1
		steps := rng.Range(3, 25)
		for s := 0; s < steps; s++ {
			if hi+1 < len(chain) && rng.Chance(1, 2) {
				hi++
				head = chain[hi]
				a.vs.UpdateCommittedBlock(head)
				b.vs.UpdateCommittedBlock(head)
				trace = append(trace, fmt.Sprintf("commit(v%d)", head.View()))
			}
			var v hotstuff.View
			switch rng.Intn(6) {
			case 0, 1, 2:
				v = head.View() + hotstuff.View(chainLen)
			case 3:
				v = head.View() + hotstuff.View(rng.Range(0, 6))
			case 4:
				v = hotstuff.View(rng.Range(0, int(head.View())+1))
			default:
				v = head.View() + hotstuff.View(rng.Range(10, 1000))
			}
			trace = append(trace, fmt.Sprintf("q(%d)", v))
			for _, which := range []string{"carousel", "reputation"} {
				la, lb := a.car, b.car
				if which == "reputation" {
					la, lb = a.rep, b.rep
				}
				xa, pa := safeLeader(la, v)
				xb, pb := safeLeader(lb, v)
				r.Obs(which+"_queries", 2)
				rep := map[string]any{"case": i, "shard": p.Shard, "n": n, "chainLen": chainLen, "seed": seed, "trace": trace}
				if pa != nil || pb != nil {
					r.Violate(vbase.Sig("leader-panic", "scheme", which), fmt.Sprintf("%s n=%d view=%d head=%d panics: %v %v", which, n, v, head.View(), pa, pb), rep)
					continue
				}
				if xa != xb {
					r.Violate(vbase.Sig("leader-disagree", "scheme", which), fmt.Sprintf("%s n=%d view=%d head=%d: %d vs %d after identical histories", which, n, v, head.View(), xa, xb), rep)
					continue
				}
				if which != "carousel" {
					if head.QuorumCert().Signature() != nil && xa != 0 {
						historyHits++
					}
					continue
				}
				if xa < 1 || int(xa) > n {
					r.Violate("carousel-unknown", fmt.Sprintf("carousel n=%d view=%d head=%d returns unknown replica %d", n, v, head.View(), xa), rep)
					continue
				}
				active := head.QuorumCert().Signature() != nil && head.View()+hotstuff.View(chainLen) == v
				if !active {
					continue
				}
				historyHits++
				r.Obs("carousel_active_answers", 1)
				if !head.QuorumCert().Signature().Participants().Contains(xa) {
					r.Violate("carousel-not-signer", fmt.Sprintf("active carousel n=%d view=%d: leader %d did not sign the QC in the committed head (signers %v)", n, v, xa, head.QuorumCert().Signature().Participants()), rep)
				}
				// last f committed blocks: head and its ancestors
				cur := hi
				for k := 0; k < f && cur >= 0; k++ {
					if chain[cur].Proposer() == xa {
						r.Violate("carousel-recent-proposer", fmt.Sprintf("active carousel n=%d f=%d view=%d: leader %d proposed committed block at view %d (within the last f)", n, f, v, xa, chain[cur].View()), rep)
					}
					cur--
				}
			}
		}
		r.Eval(historyHits > 0, fmt.Sprintf("%d/%d/%d/%v", n, chainLen, seed, trace))
		if historyHits > 0 && r.WantSample() {
			r.Sample(map[string]any{"n": n, "chain_length_param": chainLen, "seed": seed, "trace": trace})
		}
	}
}
