package vk

import (
	"fmt"
	"sort"

	"github.com/relab/hotstuff"
	"github.com/relab/hotstuff/core"
	"github.com/relab/hotstuff/internal/tree"
	"github.com/relab/hotstuff/protocol/leaderrotation"
	"github.com/relab/hotstuff/verif/vbase"
)

func init() {
	Register("C17.tree", c17Tree)
}

func idsStr(ids []hotstuff.ID) string {
	s := append([]hotstuff.ID(nil), ids...)
	sort.Slice(s, func(i, j int) bool { return s[i] < s[j] })
	return fmt.Sprint(s)
}

// c17Check assembles the per-replica tree views for one assignment and checks
// that they fit together into a single rooted tree. The reference tree is not
// computed from positions: it is assembled only from what the replicas report
// (Parent/Children), and then checked for global consistency.
func c17Check(r *vbase.Result, bf int, pos []hotstuff.ID) {
	n := len(pos)
	trees := map[hotstuff.ID]*tree.Tree{}
	for _, id := range pos {
		trees[id] = tree.NewSimple(id, bf, append([]hotstuff.ID(nil), pos...))
	}
	pass := 0
	fail := func(rule, msg string) {
		if pass > 1 {
			rule += "-after-queries"
		}
		r.Violate(vbase.Sig("tree-"+rule), fmt.Sprintf("n=%d bf=%d positions=%v: %s", n, bf, pos, msg), map[string]any{"bf": bf, "pos": pos})
	}
	// The whole consistency check runs twice on the same Tree instances, with a storm of every query in a
	// PRNG-chosen order in between: the views must fit together whenever they are consulted, not only the first time
	// (a query that re-seats the replica's own table leaves the first pass clean).
	var once func() bool
	once = func() bool {
		pass++
		// roots
		var roots []hotstuff.ID
		parentOf := map[hotstuff.ID]hotstuff.ID{}
		for _, id := range pos {
			par, ok := trees[id].Parent()
			if !ok {
				roots = append(roots, id)
			} else {
				parentOf[id] = par
				if par == id {
					fail("self-parent", fmt.Sprintf("replica %d is its own parent", id))
					return false
				}
				if _, known := trees[par]; !known {
					fail("unknown-parent", fmt.Sprintf("replica %d has parent %d which is not a replica", id, par))
					return false
				}
			}
		}
		if len(roots) != 1 {
			fail("one-root", fmt.Sprintf("replicas without parent: %v", roots))
			return false
		}
		root := roots[0]
		for _, id := range pos {
			if trees[id].Root() != root {
				fail("root-agree", fmt.Sprintf("replica %d says root=%d, parentless replica is %d", id, trees[id].Root(), root))
				return false
			}
			if trees[id].IsRoot(id) != (id == root) {
				fail("isroot", fmt.Sprintf("replica %d IsRoot(self)=%v", id, trees[id].IsRoot(id)))
				return false
			}
		}
		// children, from every vantage point
		childrenOf := map[hotstuff.ID][]hotstuff.ID{}
		for _, id := range pos {
			own := trees[id].ReplicaChildren()
			childrenOf[id] = own
			if len(own) > bf {
				fail("fanout", fmt.Sprintf("replica %d has %d children > bf", id, len(own)))
				return false
			}
			for _, v := range pos {
				if idsStr(trees[v].ChildrenOf(id)) != idsStr(own) {
					fail("children-vantage", fmt.Sprintf("children of %d: own view %v, view of %d: %v", id, own, v, trees[v].ChildrenOf(id)))
					return false
				}
			}
		}
		listed := map[hotstuff.ID]int{}
		for par, ch := range childrenOf {
			seen := map[hotstuff.ID]bool{}
			for _, c := range ch {
				if seen[c] {
					fail("child-dup", fmt.Sprintf("%d lists child %d twice", par, c))
					return false
				}
				seen[c] = true
				listed[c]++
				if parentOf[c] != par {
					fail("child-parent", fmt.Sprintf("%d lists %d as child but %d's parent is %d", par, c, c, parentOf[c]))
					return false
				}
			}
		}
		for _, id := range pos {
			if id == root {
				if listed[id] != 0 {
					fail("root-listed", fmt.Sprintf("root %d is listed as a child", id))
					return false
				}
				continue
			}
			if listed[id] != 1 {
				fail("listed-once", fmt.Sprintf("replica %d is listed as child %d times", id, listed[id]))
				return false
			}
		}
		// descendants by closure; depth
		depth := map[hotstuff.ID]int{root: 0}
		var desc func(id hotstuff.ID) []hotstuff.ID
		desc = func(id hotstuff.ID) []hotstuff.ID {
			var out []hotstuff.ID
			for _, c := range childrenOf[id] {
				depth[c] = depth[id] + 1
				out = append(out, c)
				out = append(out, desc(c)...)
			}
			return out
		}
		all := desc(root)
		if len(all) != n-1 {
			fail("reach", fmt.Sprintf("root reaches %d replicas, expected %d", len(all), n-1))
			return false
		}
		maxDepth := 0
		for _, d := range depth {
			if d > maxDepth {
				maxDepth = d
			}
		}
		for _, id := range pos {
			t := trees[id]
			st := t.SubTree()
			if idsStr(st) != idsStr(desc(id)) {
				fail("subtree", fmt.Sprintf("SubTree of %d = %v, descendants %v", id, st, desc(id)))
				return false
			}
			seen := map[hotstuff.ID]bool{}
			for _, x := range st {
				if seen[x] {
					fail("subtree-dup", fmt.Sprintf("SubTree of %d lists %d twice", id, x))
					return false
				}
				seen[x] = true
			}
			peers := t.PeersOf()
			if id == root {
				if len(peers) != 0 {
					fail("peers-root", fmt.Sprintf("root has peers %v", peers))
					return false
				}
			} else if idsStr(peers) != idsStr(childrenOf[parentOf[id]]) {
				fail("peers", fmt.Sprintf("PeersOf %d = %v, siblings %v", id, peers, childrenOf[parentOf[id]]))
				return false
			}
			if t.TreeHeight() != maxDepth+1 {
				fail("height", fmt.Sprintf("TreeHeight()=%d at %d but deepest replica is at depth %d", t.TreeHeight(), id, maxDepth))
				return false
			}
			if t.ReplicaHeight() != t.TreeHeight()-depth[id] {
				fail("replica-height", fmt.Sprintf("ReplicaHeight of %d = %d, tree height %d, depth %d", id, t.ReplicaHeight(), t.TreeHeight(), depth[id]))
				return false
			}
		}
		// dissemination / aggregation simulation over what replicas report
		recv := map[hotstuff.ID]int{root: 1}
		queue := []hotstuff.ID{root}
		for len(queue) > 0 {
			x := queue[0]
			queue = queue[1:]
			for _, c := range trees[x].ReplicaChildren() {
				recv[c]++
				queue = append(queue, c)
			}
		}
		for _, id := range pos {
			if recv[id] != 1 {
				fail("disseminate", fmt.Sprintf("replica %d receives the proposal %d times", id, recv[id]))
				return false
			}
			// vote path up must reach the root without cycles
			x, steps := id, 0
			for x != root {
				par, ok := trees[x].Parent()
				if !ok || steps > n {
					fail("vote-path", fmt.Sprintf("vote of %d does not reach the root", id))
					return false
				}
				x = par
				steps++
			}
			if steps != depth[id] {
				fail("vote-path-len", fmt.Sprintf("vote path of %d has %d hops, depth %d", id, steps, depth[id]))
				return false
			}
		}
		// tree leader = root from every vantage point
		for _, id := range pos[:min(len(pos), 3)] {
			cfg := core.NewRuntimeConfig(id, nil, core.WithKauriTree(trees[id]))
			if l := leaderrotation.NewTreeBased(cfg).GetLeader(hotstuff.View(id) * 7); l != root {
				fail("tree-leader", fmt.Sprintf("tree leader at %d = %d, root %d", id, l, root))
				return false
			}
		}
		return true
	}
	if !once() {
		return
	}
	rng := vbase.NewRng(1, "c17-queries", bf, fmt.Sprint(pos))
	for k := 0; k < 4*n; k++ {
		t := trees[pos[rng.Intn(n)]]
		switch rng.Intn(9) {
		case 0:
			t.PeersOf()
		case 1:
			t.SubTree()
		case 2:
			t.ReplicaChildren()
		case 3:
			t.ChildrenOf(pos[rng.Intn(n)])
		case 4:
			t.Parent()
		case 5:
			t.ReplicaHeight()
		case 6:
			t.TreeHeight()
		case 7:
			t.IsRoot(pos[rng.Intn(n)])
		case 8:
			t.Root()
		}
	}
	r.Obs("query_storm_queries", int64(4*n))
	once()
}

func c17Tree(p vbase.Params, r *vbase.Result) {
	r.Rule = "n=1..40 x bf=2..6 x position assignments (all permutations for n<=6 incl. non-contiguous id sets, seeded random permutations otherwise); " +
		"one tree.Tree per replica from the same assignment, assembled from Parent/Children reports and checked for single-rooted consistency, subtree=descendants, peers, heights, " +
		"dissemination and vote paths; the whole check repeated on the same instances after 4n queries in a PRNG-chosen order (queries are pure); non-trivial: non-identity permutation or incomplete last level; distinct: (bf, positions)"
	idx := 0
	identity := func(pos []hotstuff.ID) bool {
		for i, id := range pos {
			if int(id) != i+1 {
				return false
			}
		}
		return true
	}
	complete := func(n, bf int) bool {
		lvl := 1
		for n > 0 {
			if n < lvl {
				return false
			}
			n -= lvl
			lvl *= bf
		}
		return true
	}
	run := func(bf int, pos []hotstuff.ID) {
		idx++
		if !p.Mine(idx) {
			return
		}
		c17Check(r, bf, pos)
		nt := !identity(pos) || !complete(len(pos), bf)
		r.Eval(nt, fmt.Sprintf("%d/%v", bf, pos))
		if nt && len(pos) > 5 && r.WantSample() {
			r.Sample(map[string]any{"bf": bf, "positions": pos})
		}
		r.Obs("trees_built", int64(len(pos)))
	}
	maxExh := 6
	if p.Thorough() {
		maxExh = 8 // 40320 permutations per branch factor
	}
	for bf := 2; bf <= 6; bf++ {
		for n := 1; n <= maxExh; n++ {
			pos := IDs(n)
			var perm func(k int)
			perm = func(k int) {
				if k == n {
					run(bf, append([]hotstuff.ID(nil), pos...))
					return
				}
				for i := k; i < n; i++ {
					pos[k], pos[i] = pos[i], pos[k]
					perm(k + 1)
					pos[k], pos[i] = pos[i], pos[k]
				}
			}
			perm(0)
		}
	}
	r.Exhaustive = true
	per := 80
	if p.Thorough() {
		per = 20000
	}
	for bf := 2; bf <= 6; bf++ {
		for n := 7; n <= 40; n++ {
			run(bf, IDs(n))
			for k := 0; k < per; k++ {
				rng := vbase.NewRng(p.Seed, "C17", bf, n, k)
				pm := rng.Perm(n)
				pos := make([]hotstuff.ID, n)
				off := 0
				if rng.Chance(1, 4) {
					off = rng.Range(1, 100) // non-contiguous ids
				}
				for i, x := range pm {
					pos[i] = hotstuff.ID(x + 1 + off)
				}
				run(bf, pos)
			}
		}
	}
}
