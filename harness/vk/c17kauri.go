package vk

import (
	"fmt"
	"time"

	"github.com/relab/hotstuff"
	"github.com/relab/hotstuff/core"
	"github.com/relab/hotstuff/internal/tree"
	"github.com/relab/hotstuff/protocol/comm"
	"github.com/relab/hotstuff/security/crypto"
	"github.com/relab/hotstuff/verif/vbase"
)

func init() {
	Register("C17.kauri", c17Kauri)
}

// c17Kauri: the statement's last sentence, through the real Kauri code. For a tree (n, bf, position assignment) one
// real comm.Kauri instance is built per replica; each handles the proposal once with its own vote (Aggregate). What it
// hands to its sender is recorded: the proposal must go to exactly the replica's children in the tree (so, over all
// replicas, every non-root replica receives it exactly once, from its parent), and a replica without children must hand
// its vote to its parent at once - that is the only path its vote has (a replica with children contributes when its
// subtree has, or when its wait timer expires; that part is C09's).
func c17Kauri(p vbase.Params, r *vbase.Result) {
	r.Rule = "n in 1..16 x bf 2..4 x PRNG position assignments (plus identity): one real comm.Kauri per replica handles the proposal with its own vote; recorded sends: proposal forwarded to exactly the replica's " +
		"children (every non-root replica is addressed exactly once over the whole tree), childless replicas send their vote to the parent immediately, the root never contributes upward; " +
		"non-trivial: incomplete last level or non-identity assignment; distinct: (n, bf, positions)"
	per := p.N(12, 200)
	idx := 0
	for n := 1; n <= 16; n++ {
		for bf := 2; bf <= 4; bf++ {
			for k := 0; k <= per; k++ {
				idx++
				if !p.Mine(idx) {
					continue
				}
				rng := vbase.NewRng(p.Seed, "C17.kauri", n, bf, k)
				pos := IDs(n)
				if k > 0 {
					for a, b := range rng.Perm(n) {
						pos[a] = hotstuff.ID(b + 1)
					}
				}
				c17KauriCase(r, n, bf, pos)
			}
		}
	}
}

func c17KauriCase(r *vbase.Result, n, bf int, pos []hotstuff.ID) {
	w := NewWorld(n, crypto.NameEDDSA, 0)
	gen := hotstuff.GetGenesis()
	root := tree.NewSimple(pos[0], bf, append([]hotstuff.ID(nil), pos...)).Root()
	B := hotstuff.NewBlock(gen.Hash(), hotstuff.NewQuorumCert(nil, 0, gen.Hash()), Batch(1, 1, 1), 1, root)
	w.StoreAll(B)
	addressed := map[hotstuff.ID]int{}
	rep := map[string]any{"n": n, "bf": bf, "positions": pos}
	fail := func(rule, format string, a ...any) {
		r.Violate(vbase.Sig("kauri-tree-"+rule), fmt.Sprintf(format, a...)+fmt.Sprintf(" [n=%d bf=%d positions=%v]", n, bf, pos), rep)
	}
	identity := true
	for i, id := range pos {
		if int(id) != i+1 {
			identity = false
		}
	}
	r.Eval(!identity || n > 1, fmt.Sprintf("%d/%d/%v", n, bf, pos))
	for _, self := range pos {
		tr := tree.NewSimple(self, bf, append([]hotstuff.ID(nil), pos...))
		tr.SetTreeHeightWaitTime(time.Hour)
		m := w.NewMemberWith(self, core.WithKauriTree(tr))
		k := comm.NewKauri(m.Logger, m.EL, m.Cfg, m.Chain, m.Auth, m.Sender)
		tick := func() (pan any) {
			defer func() {
				if e := recover(); e != nil {
					pan = e
				}
			}()
			ctx := m.EL.Context()
			for m.EL.Tick(ctx) {
			}
			return nil
		}
		m.EL.AddEvent(hotstuff.ReplicaConnectedEvent{})
		tick()
		m.Chain.Store(B)
		pc, err := m.Auth.CreatePartialCert(B)
		if err != nil {
			panic(err)
		}
		m.Sender.Drain()
		m.Sender.DrainContr()
		prop := hotstuff.ProposeMsg{ID: root, Block: B}
		aerr := k.Aggregate(&prop, pc)
		if pan := tick(); pan != nil {
			r.Obs("panics_judged_under_C10", 1)
			return
		}
		children := tr.ReplicaChildren()
		r.Obs("kauri_instances", 1)
		if aerr != nil {
			fail("aggregate-error", "replica %d (children %v): handling the proposal failed: %v - its vote has no path to the root", self, children, aerr)
			return
		}
		want := map[hotstuff.ID]bool{}
		for _, c := range children {
			want[c] = true
		}
		got := map[hotstuff.ID]int{}
		for _, sm := range m.Sender.Drain() {
			if _, ok := sm.Msg.(hotstuff.ProposeMsg); !ok {
				continue
			}
			if sm.To != 0 {
				got[sm.To]++
			}
			for _, id := range sm.Sub {
				got[id]++
			}
			if sm.To == 0 && len(sm.Sub) == 0 {
				fail("broadcast", "replica %d sent the proposal to everybody instead of its children %v", self, children)
				return
			}
		}
		for id, c := range got {
			if !want[id] || c != 1 {
				fail("forward-set", "replica %d forwarded the proposal to %d (%d times); its children are %v", self, id, c, children)
				return
			}
			addressed[id] += c
		}
		for id := range want {
			if got[id] == 0 {
				fail("forward-set", "replica %d did not forward the proposal to its child %d", self, id)
				return
			}
		}
		contr := m.Sender.DrainContr()
		_, hasParent := tr.Parent()
		switch {
		case !hasParent && len(contr) > 0 && len(children) > 0: // (a single-replica "tree" is root and leaf at once: not judged)
			fail("root-contributes", "the root %d sent a contribution upward", self)
			return
		case hasParent && len(children) == 0 && len(contr) != 1:
			fail("leaf-vote-path", "replica %d has no children but sent %d contributions to its parent right after voting (want 1): its vote has no path up", self, len(contr))
			return
		case hasParent && len(children) == 0:
			ok := false
			contr[0].Sig.Participants().ForEach(func(id hotstuff.ID) { ok = ok || id == self })
			if !ok || contr[0].Sig.Participants().Len() != 1 {
				fail("leaf-vote-content", "the contribution of childless replica %d does not carry exactly its own vote", self)
				return
			}
		}
	}
	for _, id := range pos {
		wantN := 1
		if id == root {
			wantN = 0
		}
		if addressed[id] != wantN {
			fail("disseminate", "over the whole tree replica %d is addressed by %d forwarded proposals (want %d)", id, addressed[id], wantN)
			return
		}
	}
}
