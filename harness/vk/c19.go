package vk

import (
	"strings"
	"bytes"
	"fmt"
	"math/bits"
	"sort"

	"github.com/relab/hotstuff"
	"github.com/relab/hotstuff/security/crypto"
	"github.com/relab/hotstuff/verif/vbase"
)

func init() {
	Register("C19.bitfield", c19Bitfield)
	Register("C19.frombytes", c19FromBytes)
	Register("C19.multi", c19Multi)
}

func sortedSet(m map[hotstuff.ID]bool) []hotstuff.ID {
	out := make([]hotstuff.ID, 0, len(m))
	for id := range m {
		out = append(out, id)
	}
	sort.Slice(out, func(i, j int) bool { return out[i] < out[j] })
	return out
}

// checkSetView compares every query of an IDSet with the ideal set.
func checkSetView(set hotstuff.IDSet, ideal map[hotstuff.ID]bool, probe []hotstuff.ID, stopAfter int) string {
	return checkSetViewOrd(set, ideal, probe, stopAfter, true)
}

// checkSetViewOrd: with ordered=false iteration order is not judged (signer lists keep combine order).
func checkSetViewOrd(set hotstuff.IDSet, ideal map[hotstuff.ID]bool, probe []hotstuff.ID, stopAfter int, ordered bool) string {
	want := sortedSet(ideal)
	if set.Len() != len(want) {
		return fmt.Sprintf("Len()=%d, ideal %d", set.Len(), len(want))
	}
	var all []hotstuff.ID
	set.ForEach(func(id hotstuff.ID) { all = append(all, id) })
	cmp := append([]hotstuff.ID(nil), all...)
	if !ordered {
		sort.Slice(cmp, func(i, j int) bool { return cmp[i] < cmp[j] })
	}
	if fmt.Sprint(cmp) != fmt.Sprint(want) {
		return fmt.Sprintf("ForEach=%v, ideal %v", all, want)
	}
	if stopAfter < 1 {
		stopAfter = 1
	}
	var got []hotstuff.ID
	set.RangeWhile(func(id hotstuff.ID) bool { got = append(got, id); return len(got) < stopAfter })
	exp := all
	if stopAfter < len(exp) {
		exp = exp[:stopAfter]
	}
	if fmt.Sprint(got) != fmt.Sprint(exp) {
		return fmt.Sprintf("RangeWhile(stop after %d)=%v, expected %v", stopAfter, got, exp)
	}
	for _, id := range probe {
		if set.Contains(id) != ideal[id] {
			return fmt.Sprintf("Contains(%d)=%v, ideal %v", id, set.Contains(id), ideal[id])
		}
	}
	return ""
}

func c19Bitfield(p vbase.Params, r *vbase.Result) {
	r.Rule = "Bitfield vs ideal set: random Add/query programs over ids 1..300 (all byte boundaries) plus exhaustive Add sequences of length<=4 over boundary ids; " +
		"after every Add: Len, ForEach, RangeWhile (early stop), Contains on inserted and neighbouring ids, Bytes()->BitfieldFromBytes equality; " +
		"non-trivial: touches >=2 bytes or repeats an insertion; distinct: sequence of inserted ids"
	check := func(seq []hotstuff.ID, rng *vbase.Rng) {
		var bf crypto.Bitfield
		ideal := map[hotstuff.ID]bool{}
		bytesTouched := map[int]bool{}
		repeat := false
		for step, id := range seq {
			if ideal[id] {
				repeat = true
			}
			bf.Add(id)
			ideal[id] = true
			bytesTouched[(int(id)-1)/8] = true
			probe := []hotstuff.ID{id, id + 1, id + 7, id + 8, id + 9, 1, 300, 301, 1000}
			if id > 1 {
				probe = append(probe, id-1)
			}
			if id > 8 {
				probe = append(probe, id-8)
			}
			stop := 1
			if rng != nil {
				stop = rng.Range(1, len(ideal)+1)
			}
			if msg := checkSetView(&bf, ideal, probe, stop); msg != "" {
				r.Violate(vbase.Sig("bitfield-set", "q", msg[:8]), fmt.Sprintf("after Add sequence %v (step %d): %s", seq[:step+1], step, msg), seq[:step+1])
				return
			}
			// value copy must answer the same
			cp := bf
			if msg := checkSetView(&cp, ideal, probe, stop); msg != "" {
				r.Violate(vbase.Sig("bitfield-copy", "q", msg[:8]), fmt.Sprintf("copy after Add sequence %v: %s", seq[:step+1], msg), seq[:step+1])
				return
			}
			// rebuild from byte form
			rb := crypto.BitfieldFromBytes(append([]byte(nil), bf.Bytes()...))
			if msg := checkSetView(&rb, ideal, probe, stop); msg != "" {
				r.Violate(vbase.Sig("bitfield-rebuild", "q", msg[:8]), fmt.Sprintf("rebuilt from Bytes() after %v: %s", seq[:step+1], msg), seq[:step+1])
				return
			}
			r.Obs("queries", int64(3*(4+len(probe))))
		}
		r.Eval(len(bytesTouched) >= 2 || repeat, fmt.Sprint(seq))
		if len(seq) > 3 && len(bytesTouched) >= 2 {
			r.Sample(map[string]any{"adds": seq, "bytes_touched": len(bytesTouched)})
		}
	}
	// exhaustive small
	if p.Shard == 0 {
		alpha := []hotstuff.ID{1, 2, 8, 9, 16, 17, 64, 65, 300}
		var rec func(seq []hotstuff.ID)
		rec = func(seq []hotstuff.ID) {
			if len(seq) > 0 {
				check(seq, nil)
			}
			if len(seq) == 4 {
				return
			}
			for _, a := range alpha {
				rec(append(append([]hotstuff.ID(nil), seq...), a))
			}
		}
		rec(nil)
		r.Exhaustive = true
	}
	n := p.N(6000, 300000)
	for i := 0; i < n; i++ {
		rng := vbase.NewRng(p.Seed, "C19.bitfield", p.Shard, i)
		l := rng.Range(1, 40)
		hi := []int{8, 9, 17, 64, 300}[rng.Intn(5)]
		seq := make([]hotstuff.ID, l)
		for j := range seq {
			seq[j] = hotstuff.ID(rng.Range(1, hi))
		}
		check(seq, rng)
	}
}

func c19FromBytes(p vbase.Params, r *vbase.Result) {
	r.Rule = "BitfieldFromBytes(b) for ALL byte strings of length<=2 and random strings to length 40: Bytes() round trip, Len=popcount, ascending iteration, each id once, " +
		"Contains agrees with bits; non-trivial: >=2 bytes or trailing zero byte; distinct: the byte string"
	check := func(b []byte) {
		orig := append([]byte(nil), b...)
		bf := crypto.BitfieldFromBytes(b)
		ideal := map[hotstuff.ID]bool{}
		pc := 0
		for i, by := range orig {
			pc += bits.OnesCount8(by)
			for k := 0; k < 8; k++ {
				if by&(1<<k) != 0 {
					ideal[hotstuff.ID(1+i*8+k)] = true
				}
			}
		}
		probe := []hotstuff.ID{1, 2, 8, 9, 16, 17, hotstuff.ID(len(orig)*8 + 1), hotstuff.ID(len(orig) * 8)}
		if msg := checkSetView(&bf, ideal, probe, pc/2+1); msg != "" {
			r.Violate(vbase.Sig("frombytes-set", "q", msg[:8]), fmt.Sprintf("BitfieldFromBytes(%x): %s", orig, msg), fmt.Sprintf("%x", orig))
		}
		if bf.Len() != pc {
			r.Violate("frombytes-popcount", fmt.Sprintf("BitfieldFromBytes(%x).Len()=%d popcount=%d", orig, bf.Len(), pc), fmt.Sprintf("%x", orig))
		}
		if !bytes.Equal(bf.Bytes(), orig) {
			r.Violate("frombytes-roundtrip", fmt.Sprintf("BitfieldFromBytes(%x).Bytes()=%x", orig, bf.Bytes()), fmt.Sprintf("%x", orig))
		}
		nontrivial := len(orig) >= 2 || (len(orig) > 0 && orig[len(orig)-1] == 0)
		r.Eval(nontrivial, fmt.Sprintf("%x", orig))
		if nontrivial && pc > 3 {
			r.Sample(map[string]any{"bytes": fmt.Sprintf("%x", orig), "len": pc})
		}
	}
	if p.Shard == 0 {
		check(nil)
		check([]byte{})
		for a := 0; a < 256; a++ {
			check([]byte{byte(a)})
			for b := 0; b < 256; b++ {
				check([]byte{byte(a), byte(b)})
			}
		}
		r.Exhaustive = true
	}
	n := p.N(20000, 1000000)
	for i := 0; i < n; i++ {
		rng := vbase.NewRng(p.Seed, "C19.frombytes", p.Shard, i)
		b := rng.Bytes(rng.Range(3, 40))
		if rng.Chance(1, 4) {
			b[len(b)-1] = 0
		}
		if rng.Chance(1, 8) {
			for k := range b {
				b[k] &= byte(rng.Uint64()) & byte(rng.Uint64())
			}
		}
		check(b)
		// the same bytes as a prefix of a larger buffer that holds other data behind them (a field decoded from a message
		// buffer): adding an id beyond the prefix must not pick up what lies in the spare capacity
		big := append(append([]byte(nil), b...), rng.Bytes(rng.Range(1, 24))...)
		for k := len(b); k < len(big); k++ {
			big[k] |= 0x81
		}
		bf := crypto.BitfieldFromBytes(big[:len(b)])
		ideal := map[hotstuff.ID]bool{}
		for i2, by := range b {
			for k := 0; k < 8; k++ {
				if by&(1<<k) != 0 {
					ideal[hotstuff.ID(1+i2*8+k)] = true
				}
			}
		}
		var added []hotstuff.ID
		for k := rng.Range(1, 3); k > 0; k-- {
			id := hotstuff.ID(len(b)*8 + rng.Range(1, 120))
			bf.Add(id)
			ideal[id] = true
			added = append(added, id)
		}
		probe := append([]hotstuff.ID{1, hotstuff.ID(len(b) * 8), hotstuff.ID(len(b)*8 + 1), hotstuff.ID(len(b)*8 + 8), hotstuff.ID(len(b)*8 + 9)}, added...)
		if msg := checkSetView(&bf, ideal, probe, len(ideal)/2+1); msg != "" {
			r.Violate(vbase.Sig("frombytes-grow", "q", msg[:8]), fmt.Sprintf("BitfieldFromBytes(prefix %x of a larger buffer) then Add%v: %s", b, added, msg), fmt.Sprintf("%x", b))
		} else if bf.Len() != len(ideal) {
			r.Violate("frombytes-grow-len", fmt.Sprintf("BitfieldFromBytes(prefix %x of a larger buffer) then Add%v: Len()=%d, %d ids inserted", b, added, bf.Len(), len(ideal)), fmt.Sprintf("%x", b))
		}
		r.Eval(true, fmt.Sprintf("grow/%x/%v", b, added))
	}
}

func c19Multi(p vbase.Params, r *vbase.Result) {
	r.Rule = "signer lists from real Sign/Combine, three schemes, n in {4,7}: for all non-empty subsets (n=4) / random subsets (n=7) of single signatures, " +
		"combined in one call or via nested partial combines: Len = number of distinct signers, Contains/ForEach/RangeWhile agree; " +
		"any Combine whose inputs overlap must either fail or still report distinct size; non-trivial: >=2 signers or an overlapping combine; distinct: (scheme,n,groups)"
	idx := 0
	for _, scheme := range Schemes {
		for _, n := range []int{4, 7} {
			idx++
			if !p.Mine(idx) {
				continue
			}
			w := NewWorld(n, scheme, 0)
			msg := []byte("c19 message")
			single := map[hotstuff.ID]hotstuff.QuorumSignature{}
			for _, id := range IDs(n) {
				s, err := w.M(id).Auth.Sign(msg)
				if err != nil {
					panic(err)
				}
				single[id] = s
				if m := checkSetView(s.Participants(), map[hotstuff.ID]bool{id: true}, IDs(n+1), 1); m != "" {
					r.Violate(vbase.Sig("multi-single", "scheme", scheme), fmt.Sprintf("Sign by %d: %s", id, m), nil)
				}
				r.Eval(false, fmt.Sprintf("%s/%d/single%d", scheme, n, id))
			}
			comb := w.M(1).Auth
			judge := func(desc string, groups [][]hotstuff.ID, out hotstuff.QuorumSignature, err error) {
				ideal := map[hotstuff.ID]bool{}
				total := 0
				for _, g := range groups {
					for _, id := range g {
						ideal[id] = true
						total++
					}
				}
				overlap := total != len(ideal)
				r.Eval(len(ideal) >= 2 || overlap, fmt.Sprintf("%s/%d/%s/%v", scheme, n, desc, groups))
				r.Obs("combines", 1)
				if err != nil {
					if !overlap && total >= 2 && len(groups) >= 2 {
						r.Violate(vbase.Sig("multi-combine-fails", "scheme", scheme), fmt.Sprintf("Combine of disjoint groups %v failed: %v", groups, err), groups)
					}
					r.Obs("combine_errors", 1)
					return
				}
				if overlap {
					r.Obs("overlap_accepted", 1)
				}
				if out.Participants().Len() != len(ideal) {
					r.Violate(vbase.Sig("multi-len", "scheme", scheme, "overlap", overlap),
						fmt.Sprintf("Combine(%v) (%s): Len()=%d but %d distinct signers", groups, desc, out.Participants().Len(), len(ideal)), groups)
					return
				}
				if m := checkSetViewOrd(out.Participants(), ideal, IDs(n+1), len(ideal)/2+1, scheme == crypto.NameBLS12); m != "" {
					r.Violate(vbase.Sig("multi-members", "scheme", scheme), fmt.Sprintf("Combine(%v): %s", groups, m), groups)
				}
				if r.WantSample() && len(ideal) >= 3 {
					r.Sample(map[string]any{"scheme": scheme, "n": n, "groups": groups, "len": out.Participants().Len()})
				}
			}
			doGroups := func(groups [][]hotstuff.ID) {
				// each group is first combined (if >1), then groups are combined
				var parts []hotstuff.QuorumSignature
				for _, g := range groups {
					if len(g) == 1 {
						parts = append(parts, single[g[0]])
						continue
					}
					var ss []hotstuff.QuorumSignature
					for _, id := range g {
						ss = append(ss, single[id])
					}
					c, err := comb.Combine(ss...)
					judge("inner", [][]hotstuff.ID{g}, c, err)
					if err != nil {
						return
					}
					parts = append(parts, c)
				}
				if len(parts) >= 2 {
					c, err := comb.Combine(parts...)
					judge("outer", groups, c, err)
				}
			}
			if n == 4 {
				// all non-empty subsets as one flat combine, and all ordered pairs of subsets (overlapping included)
				for m := 1; m < 1<<n; m++ {
					var g [][]hotstuff.ID
					for i := 0; i < n; i++ {
						if m&(1<<i) != 0 {
							g = append(g, []hotstuff.ID{hotstuff.ID(i + 1)})
						}
					}
					doGroups(g)
					for m2 := 1; m2 < 1<<n; m2++ {
						var a, b []hotstuff.ID
						for i := 0; i < n; i++ {
							if m&(1<<i) != 0 {
								a = append(a, hotstuff.ID(i+1))
							}
							if m2&(1<<i) != 0 {
								b = append(b, hotstuff.ID(i+1))
							}
						}
						doGroups([][]hotstuff.ID{a, b})
					}
				}
			}
			// reuse programs: aggregates are values - combining an aggregate again (as first or later argument, several times,
			// with different partners) must leave every earlier result as it was
			reuse := p.N(200, 12000)
			for i := 0; i < reuse; i++ {
				rng := vbase.NewRng(p.Seed, "C19.multi.reuse", scheme, n, i)
				type entry struct {
					sig   hotstuff.QuorumSignature
					ideal map[hotstuff.ID]bool
					how   string
				}
				var pool []entry
				for id := 1; id <= n; id++ {
					pool = append(pool, entry{single[hotstuff.ID(id)], map[hotstuff.ID]bool{hotstuff.ID(id): true}, fmt.Sprintf("s%d", id)})
				}
				var trace []string
				for step := 0; step < rng.Range(3, 9); step++ {
					k := rng.Range(2, 3)
					var args []hotstuff.QuorumSignature
					ideal := map[hotstuff.ID]bool{}
					total := 0
					var names []string
					for a := 0; a < k; a++ {
						j := rng.Intn(len(pool))
						if a == 0 && rng.Chance(2, 3) {
							j = n + rng.Intn(max(1, len(pool)-n)) // prefer an aggregate as the first argument
							if j >= len(pool) {
								j = rng.Intn(len(pool))
							}
						}
						args = append(args, pool[j].sig)
						names = append(names, pool[j].how)
						for id := range pool[j].ideal {
							ideal[id] = true
							total++
						}
					}
					out, err := comb.Combine(args...)
					how := fmt.Sprintf("C(%s)", strings.Join(names, ","))
					trace = append(trace, how)
					r.Obs("combines", 1)
					if err == nil && total == len(ideal) {
						if out.Participants().Len() != len(ideal) {
							r.Violate(vbase.Sig("multi-len", "scheme", scheme, "overlap", false), fmt.Sprintf("%v: Len()=%d but %d distinct signers", trace, out.Participants().Len(), len(ideal)), trace)
							break
						}
						pool = append(pool, entry{out, ideal, how})
					} else if err != nil && total == len(ideal) {
						r.Violate(vbase.Sig("multi-combine-fails", "scheme", scheme), fmt.Sprintf("%v: Combine of disjoint signatures failed: %v", trace, err), trace)
						break
					}
					// every earlier result still describes the same signer set
					bad := false
					for _, e := range pool {
						if m := checkSetViewOrd(e.sig.Participants(), e.ideal, IDs(n+1), len(e.ideal)/2+1, scheme == crypto.NameBLS12); m != "" || e.sig.Participants().Len() != len(e.ideal) {
							r.Violate(vbase.Sig("multi-result-changed", "scheme", scheme), fmt.Sprintf("after %v the earlier result %s no longer describes its %d signers: Len()=%d %s", trace, e.how, len(e.ideal), e.sig.Participants().Len(), m), trace)
							bad = true
							break
						}
					}
					if bad {
						break
					}
				}
				r.Eval(len(pool) > n+1, fmt.Sprintf("%s/%d/reuse/%v", scheme, n, trace))
			}
			cnt := p.N(300, 20000)
			for i := 0; i < cnt; i++ {
				rng := vbase.NewRng(p.Seed, "C19.multi", scheme, n, i)
				ng := rng.Range(2, 4)
				var groups [][]hotstuff.ID
				for g := 0; g < ng; g++ {
					var grp []hotstuff.ID
					seen := map[hotstuff.ID]bool{}
					for k := rng.Range(1, 3); k > 0; k-- {
						id := hotstuff.ID(rng.Range(1, n))
						if !seen[id] {
							seen[id] = true
							grp = append(grp, id)
						}
					}
					groups = append(groups, grp)
				}
				doGroups(groups)
			}
		}
	}
}
