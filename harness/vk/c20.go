package vk

import (
	"github.com/relab/hotstuff/security/crypto"
	"fmt"

	"github.com/relab/hotstuff"
	"github.com/relab/hotstuff/core"
	"github.com/relab/hotstuff/verif/vbase"
)

func init() {
	Register("C20.arith", c20Arith)
	Register("C20.threshold", c20Threshold)
}

// c20Arith checks the real QuorumSize/NumFaulty for every n in 1..1e6 against the
// statement's inequalities (not against a second formula).
func c20Arith(p vbase.Params, r *vbase.Result) {
	maxN := 1_000_000
	if p.Thorough() {
		maxN = 20_000_000
	}
	r.Rule = fmt.Sprintf("exhaustive n=1..%d on", maxN) + " hotstuff.QuorumSize/NumFaulty: 3f<n<=3(f+1), 2q-n>=f+1, q<=n-f, q-1 fails intersection; " +
		"RuntimeConfig.QuorumSize() for n<=2000 configured replicas; non-trivial: n<4 or n mod 3 != 1 (outside the repo's table test); distinct: n"
	r.Exhaustive = true
	for n := 1; n <= maxN; n++ {
		if !p.Mine(n) {
			continue
		}
		f := hotstuff.NumFaulty(n)
		q := hotstuff.QuorumSize(n)
		nontrivial := n < 4 || n%3 != 1
		r.EvalUnique(nontrivial) // every n is visited exactly once
		bad := ""
		switch {
		case f < 0 || 3*f >= n:
			bad = "f too large: 3f >= n"
		case 3*(f+1) < n:
			bad = "f not the largest integer with 3f < n"
		case 2*q-n < f+1:
			bad = "two quorums need not share an honest replica: 2q-n < f+1"
		case q > n-f:
			bad = "honest replicas alone cannot form a quorum: q > n-f"
		case 2*(q-1)-n >= f+1:
			bad = "q is not the smallest size with the intersection property"
		case q < 1 || q > n:
			bad = "q outside 1..n"
		}
		if bad != "" {
			r.Violate(vbase.Sig("quorum-arith", "kind", bad[:12]), fmt.Sprintf("n=%d f=%d q=%d: %s", n, f, q, bad), map[string]int{"n": n, "f": f, "q": q})
		}
		if n <= 3 || n == 1000 || n == maxN {
			r.Sample(map[string]int{"n": n, "f": f, "q": q})
		}
	}
	r.Obs("n_checked_max", 0)
	// RuntimeConfig must use the same threshold for the configured membership.
	if p.Shard == 0 {
		cfg := core.NewRuntimeConfig(1, nil)
		for n := 1; n <= 2000; n++ {
			cfg.AddReplica(&hotstuff.ReplicaInfo{ID: hotstuff.ID(n)})
			r.Eval(n < 4 || n%3 != 1, fmt.Sprintf("cfg%d", n))
			if cfg.ReplicaCount() != n || cfg.QuorumSize() != RefQuorum(n) {
				r.Violate("quorum-config", fmt.Sprintf("RuntimeConfig with %d replicas: count=%d quorum=%d, reference %d",
					n, cfg.ReplicaCount(), cfg.QuorumSize(), RefQuorum(n)), map[string]int{"n": n})
			}
			r.Obs("config_sizes_checked", 1)
		}
	}
}

// c20Threshold checks that certificate verification switches exactly at the
// reference quorum: q-1 distinct honest signers must be rejected, q accepted.
func c20Threshold(p vbase.Params, r *vbase.Result) {
	r.Rule = "n=1..13 x 3 schemes x cache{0,10} x {QC,TC,AggQC} x k in {q-1,q,n} distinct honest signers through the real Verify*; " +
		"non-trivial: k=q-1 or k=q; distinct: (scheme,cache,n,type,k)"
	idx := 0
	for _, scheme := range Schemes {
		for _, cache := range []uint{0, 10} {
			for n := 1; n <= 13; n++ {
				idx++
				if !p.Mine(idx) {
					continue
				}
				c20ThresholdCell(r, scheme, cache, n)
			}
		}
	}
}

func c20ThresholdCell(r *vbase.Result, scheme string, cache uint, n int) {
	w := NewWorld(n, scheme, cache, core.WithAggregateQC())
	q := w.Q()
	blk := hotstuff.NewBlock(hotstuff.GetGenesis().Hash(), hotstuff.NewQuorumCert(nil, 0, hotstuff.GetGenesis().Hash()), Batch(1, 1, 1), 1, 1)
	w.StoreAll(blk)
	genQC := hotstuff.NewQuorumCert(nil, 0, hotstuff.GetGenesis().Hash())
	verifier := w.M(hotstuff.ID(n)) // any member
	// q entries from only q-1 members: the first signer listed again at the end (not adjacent to itself)
	if scheme != "bls12" && q >= 3 {
		var ps []piece
		for _, id := range IDs(n)[:q-1] {
			ps = append(ps, piece{Claim: id, Src: id, Msg: blk.ToBytes()})
		}
		ps = append(ps, piece{Claim: 1, Src: 1, Msg: blk.ToBytes()})
		err := verifier.Auth.VerifyQuorumCert(hotstuff.NewQuorumCert(w.assemble(ps, nil, 0), blk.View(), blk.Hash()))
		r.Eval(true, fmt.Sprintf("%s/%d/%d/QC/padded", scheme, cache, n))
		r.Obs("verifications", 1)
		if err == nil {
			r.Violate(vbase.Sig("threshold", "type", "QC", "kind", "accepts-below-quorum", "scheme", scheme),
				fmt.Sprintf("QC with %d entries from only %d distinct members of n=%d (the first signer repeated at the end; reference q=%d, scheme %s, cache %d) was accepted", q, q-1, n, q, scheme, cache),
				map[string]any{"scheme": scheme, "cache": cache, "n": n, "k": q - 1, "type": "QC", "padded": true})
		} else {
			r.Obs("rejected", 1)
		}
	}
	// proposals justified by an aggregate QC (VerifyAnyQC): the threshold applies to the block's own QC as well - a copy of
	// the aggregate's high QC (same view, hash and signature bytes) that names a single replica is below the quorum
	if q >= 2 {
		signers := IDs(n)[:q]
		if hq, _, err := w.HonestQC(blk, signers); err == nil {
			tms := w.HonestTimeouts(5, signers, func(hotstuff.ID) hotstuff.QuorumCert { return hq }, true)
			if agg, err := w.M(1).Auth.CreateAggregateQC(5, tms); err == nil {
				raw := hq.Signature().ToBytes()
				var one hotstuff.QuorumSignature
				switch scheme {
				case crypto.NameECDSA:
					one = crypto.NewMulti(crypto.RestoreECDSASignature(raw, signers[0]))
				case crypto.NameEDDSA:
					one = crypto.NewMulti(crypto.RestoreEDDSASignature(raw, signers[0]))
				default:
					var bf crypto.Bitfield
					bf.Add(signers[0])
					one, _ = crypto.RestoreBLS12AggregateSignature(raw, bf)
				}
				if one != nil {
					pb := hotstuff.NewBlock(blk.Hash(), hotstuff.NewQuorumCert(one, blk.View(), blk.Hash()), Batch(2, 1, 1), 6, 1)
					err := verifier.Auth.VerifyAnyQC(&hotstuff.ProposeMsg{ID: 1, Block: pb, AggregateQC: &agg})
					r.Eval(true, fmt.Sprintf("%s/%d/%d/AnyQC/1", scheme, cache, n))
					r.Obs("verifications", 1)
					if err == nil {
						r.Violate(vbase.Sig("threshold", "type", "AnyQC", "kind", "accepts-below-quorum", "scheme", scheme),
							fmt.Sprintf("VerifyAnyQC accepted a proposal whose block QC names 1 replica of n=%d (reference q=%d, scheme %s, cache %d): the bytes are those of the aggregate's high QC", n, q, scheme, cache),
							map[string]any{"scheme": scheme, "cache": cache, "n": n, "k": 1, "type": "AnyQC"})
					} else {
						r.Obs("rejected", 1)
					}
				}
			}
		}
	}
	ks := []int{q - 1, q, n}
	for _, k := range ks {
		if k < 1 {
			continue
		}
		signers := IDs(n)[:k]
		want := k >= q
		sigs := make([]hotstuff.QuorumSignature, 0, k)
		vsigs := make([]hotstuff.QuorumSignature, 0, k)
		for _, id := range signers {
			s, err := w.M(id).Auth.Sign(blk.ToBytes())
			if err != nil {
				panic(err)
			}
			sigs = append(sigs, s)
			vs, _ := w.M(id).Auth.Sign(hotstuff.View(5).ToBytes())
			vsigs = append(vsigs, vs)
		}
		combine := func(ss []hotstuff.QuorumSignature) hotstuff.QuorumSignature {
			if len(ss) == 1 {
				return ss[0]
			}
			c, err := w.M(1).Auth.Combine(ss...)
			if err != nil {
				panic(err)
			}
			return c
		}
		type tc struct {
			typ string
			err error
		}
		var outs []tc
		outs = append(outs, tc{"QC", verifier.Auth.VerifyQuorumCert(hotstuff.NewQuorumCert(combine(sigs), blk.View(), blk.Hash()))})
		outs = append(outs, tc{"TC", verifier.Auth.VerifyTimeoutCert(hotstuff.NewTimeoutCert(combine(vsigs), 5))})
		// aggregate QC
		tms := w.HonestTimeouts(5, signers, func(hotstuff.ID) hotstuff.QuorumCert { return genQC }, true)
		qcs := map[hotstuff.ID]hotstuff.QuorumCert{}
		msigs := make([]hotstuff.QuorumSignature, 0, k)
		for _, tm := range tms {
			qcs[tm.ID] = genQC
			msigs = append(msigs, tm.MsgSignature)
		}
		_, aerr := verifier.Auth.VerifyAggregateQC(hotstuff.NewAggregateQC(qcs, combine(msigs), 5))
		outs = append(outs, tc{"AggQC", aerr})
		for _, o := range outs {
			sig := fmt.Sprintf("%s/%d/%d/%s/%d", scheme, cache, n, o.typ, k)
			r.Eval(k == q || k == q-1, sig)
			got := o.err == nil
			if got != want && want && scheme == "bls12" {
				// a rejection of a genuine BLS aggregate may be the pairing library's defect (blsref.go): not a threshold error
				r.Obs("bls_rejections_rechecked", 1)
				msgOf := func(hotstuff.ID) []byte { return blk.ToBytes() }
				var s hotstuff.QuorumSignature = combine(sigs)
				if o.typ == "TC" {
					msgOf = func(hotstuff.ID) []byte { return hotstuff.View(5).ToBytes() }
					s = combine(vsigs)
				}
				if o.typ == "AggQC" || w.LibraryDefect(s, msgOf) {
					r.Obs("bls_library_defect_cases_skipped", 1)
					continue
				}
			}
			if got != want {
				kind := "accepts-below-quorum"
				if want {
					kind = "rejects-at-quorum"
				}
				r.Violate(vbase.Sig("threshold", "type", o.typ, "kind", kind, "scheme", scheme),
					fmt.Sprintf("%s with %d of n=%d distinct honest signers (reference q=%d, scheme %s, cache %d): verify err=%v", o.typ, k, n, q, scheme, cache, o.err),
					map[string]any{"scheme": scheme, "cache": cache, "n": n, "k": k, "type": o.typ})
			}
			r.Obs("verifications", 1)
			if got {
				r.Obs("accepted", 1)
			} else {
				r.Obs("rejected", 1)
			}
		}
		if r.WantSample() {
			r.Sample(map[string]any{"scheme": scheme, "cache": cache, "n": n, "q_ref": q, "signers": k, "types": []string{"QC", "TC", "AggQC"}})
		}
	}
}
