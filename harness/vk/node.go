package vk

import (
	"reflect"
	"unsafe"
	"context"
	"fmt"
	"sync"
	"time"

	"github.com/relab/hotstuff"
	"github.com/relab/hotstuff/core/eventloop"
	"github.com/relab/hotstuff/internal/proto/clientpb"
	"github.com/relab/hotstuff/protocol"
	"github.com/relab/hotstuff/protocol/comm"
	"github.com/relab/hotstuff/protocol/consensus"
	"github.com/relab/hotstuff/protocol/leaderrotation"
	"github.com/relab/hotstuff/protocol/rules"
	"github.com/relab/hotstuff/protocol/rules/byzantine"
	"github.com/relab/hotstuff/protocol/synchronizer"
	"github.com/relab/hotstuff/protocol/votingmachine"
)

// RecLeader records what a node's leader rotation answered, so that monitors
// judge "the designated leader" by what the node itself was told.
type RecLeader struct {
	Inner leaderrotation.LeaderRotation
	mu    sync.Mutex
	Seen  map[hotstuff.View]hotstuff.ID
}

func (r *RecLeader) GetLeader(v hotstuff.View) hotstuff.ID {
	id := r.Inner.GetLeader(v)
	r.mu.Lock()
	if r.Seen == nil {
		r.Seen = map[hotstuff.View]hotstuff.ID{}
	}
	r.Seen[v] = id
	r.mu.Unlock()
	return id
}

// Answered returns the recorded answer for a view.
func (r *RecLeader) Answered(v hotstuff.View) (hotstuff.ID, bool) {
	r.mu.Lock()
	defer r.mu.Unlock()
	id, ok := r.Seen[v]
	return id, ok
}

// ScriptLeader is a static leader schedule: view v (1-based) -> Sched[(v-1) mod len].
type ScriptLeader struct{ Sched []hotstuff.ID }

func (s ScriptLeader) GetLeader(v hotstuff.View) hotstuff.ID {
	if len(s.Sched) == 0 || v == 0 {
		return 1
	}
	return s.Sched[int((uint64(v)-1)%uint64(len(s.Sched)))]
}

// NodeOpts selects how a protocol stack is wired.
type NodeOpts struct {
	Ruleset   string                        // rules.Name*
	Byzantine string                        // "", byzantine.NameFork, NameIncreaseView, NameSilentProposer
	Leader    leaderrotation.LeaderRotation // nil = round-robin
	BatchSize uint32
	ELSize    uint
	Rules     func(m *Member) consensus.Ruleset // optional override of the ruleset constructor
}

// Node is a full protocol stack wired from exported constructors exactly as
// twins/node.go and replica.New do, minus the network server.
type Node struct {
	*Member
	Opts      NodeOpts
	VS        *protocol.ViewStates
	Rules     consensus.Ruleset
	Committer *consensus.Committer
	Voter     *consensus.Voter
	Proposer  *consensus.Proposer
	VM        *votingmachine.VotingMachine
	Comm      comm.Communication
	Sync      *synchronizer.Synchronizer
	Cmds      *clientpb.CommandCache
	LR        *RecLeader
	timerRec  *recDuration
	cancel    context.CancelFunc
}

// NewNode wires a protocol stack on top of a member's security layer.
func NewNode(m *Member, o NodeOpts) (*Node, error) {
	if o.BatchSize == 0 {
		o.BatchSize = 1
	}
	n := &Node{Member: m, Opts: o}
	var err error
	if o.Rules != nil {
		n.Rules = o.Rules(m)
	} else {
		n.Rules, err = rules.New(m.Logger, m.Cfg, m.Chain, o.Ruleset)
		if err != nil {
			return nil, err
		}
	}
	if o.Byzantine != "" {
		n.Rules, err = byzantine.Wrap(m.Cfg, m.Chain, n.Rules, o.Byzantine)
		if err != nil {
			return nil, err
		}
	}
	n.VS, err = protocol.NewViewStates(m.Chain, m.Auth)
	if err != nil {
		return nil, err
	}
	inner := o.Leader
	if inner == nil {
		inner = leaderrotation.NewRoundRobin(m.Cfg)
	}
	n.LR = &RecLeader{Inner: inner}
	n.Cmds = clientpb.NewCommandCache(o.BatchSize)
	n.Committer = consensus.NewCommitter(m.EL, m.Logger, m.Chain, n.VS, n.Rules)
	n.VM = votingmachine.New(m.Logger, m.EL, m.Cfg, m.Chain, m.Auth, n.VS)
	n.Comm = comm.NewClique(m.Cfg, n.VM, n.LR, m.Sender)
	n.Voter = consensus.NewVoter(m.Cfg, n.LR, n.Rules, n.Comm, m.Auth, n.Committer)
	n.Proposer = consensus.NewProposer(m.EL, m.Cfg, m.Chain, n.VS, n.Rules, n.Comm, n.Voter, n.Cmds, n.Committer)
	n.timerRec = &recDuration{inner: synchronizer.NewFixedDuration(time.Hour), vs: n.VS}
	n.Sync = synchronizer.New(m.EL, m.Logger, m.Cfg, m.Auth, n.LR, n.timerRec,
		synchronizer.NewTimeoutRuler(m.Cfg, m.Auth), n.Proposer, n.Voter, n.VS, m.Sender)
	return n, nil
}

// Start starts the synchronizer (the leader of view 1 proposes). Real timers never fire (1h).
func (n *Node) Start() {
	ctx, cancel := context.WithCancel(context.Background())
	n.cancel = cancel
	n.Sync.Start(ctx)
}

// Stop releases the synchronizer's goroutine and timer.
func (n *Node) Stop() {
	if n.cancel != nil {
		n.cancel()
		n.cancel = nil
	}
	n.StopTimer()
}

// Drain runs the event loop until it is empty; a panic is recovered and returned.
func (n *Node) Drain(max int) (handled int, pan any, stack string) {
	defer func() {
		if e := recover(); e != nil {
			pan = e
			stack = StackSite()
		}
	}()
	ctx := context.Background()
	for handled < max && n.EL.Tick(ctx) {
		handled++
	}
	return
}

// recDuration is the node's ViewDuration. The synchronizer asks it for a duration exactly when it starts a view timer,
// right after it captured the view that timer will report; recording the replica's view at that moment tells the harness
// which view the pending timer carries - a harness-fired timeout must carry that view, as the real timer would.
type recDuration struct {
	inner     synchronizer.ViewDuration
	vs        *protocol.ViewStates
	mu        sync.Mutex
	timerView hotstuff.View
	armed     bool
}

func (d *recDuration) Duration() time.Duration {
	d.mu.Lock()
	d.timerView, d.armed = d.vs.View(), true
	d.mu.Unlock()
	return d.inner.Duration()
}
func (d *recDuration) ViewStarted()   { d.inner.ViewStarted() }
func (d *recDuration) ViewSucceeded() { d.inner.ViewSucceeded() }
func (d *recDuration) ViewTimeout()   { d.inner.ViewTimeout() }

// TimerView returns the view the replica's pending view timer was started for (the view its TimeoutEvent will carry).
func (n *Node) TimerView() hotstuff.View {
	n.timerRec.mu.Lock()
	defer n.timerRec.mu.Unlock()
	if !n.timerRec.armed {
		return n.VS.View()
	}
	return n.timerRec.timerView
}

// StopTimer stops the synchronizer's pending view timer. The harness fires timeouts itself (TimeoutEvent) and
// OnLocalTimeout replaces the timer without stopping the old one - which in production has just fired, but here would
// stay pending for an hour and keep the whole replica reachable (memory growth over hundreds of thousands of cases).
func (n *Node) StopTimer() {
	v := reflect.ValueOf(n.Sync)
	if v.Kind() != reflect.Ptr || v.IsNil() {
		return
	}
	f := v.Elem().FieldByName("timer")
	if !f.IsValid() || f.Kind() != reflect.Struct {
		return
	}
	t := f.FieldByName("timerDoNotUse")
	if !t.IsValid() || t.Kind() != reflect.Ptr || t.IsNil() {
		return
	}
	if tm, ok := reflect.NewAt(t.Type(), unsafe.Pointer(t.UnsafeAddr())).Elem().Interface().(*time.Timer); ok && tm != nil {
		tm.Stop()
	}
}

// Deliver adds an event and drains.
func (n *Node) Deliver(ev any, max int) (pan any, site string) {
	if _, ok := ev.(hotstuff.TimeoutEvent); ok {
		n.StopTimer()
	}
	func() {
		defer func() {
			if e := recover(); e != nil {
				pan = e
				site = StackSite()
			}
		}()
		n.EL.AddEvent(ev)
	}()
	if pan != nil {
		return
	}
	_, pan, site = n.Drain(max)
	return
}

// CmdCacheFresh reports how many cached commands are above their client's proposed
// marker, and whether a wake-up token is pending (read under the cache's own mutex).
func CmdCacheFresh(cc *clientpb.CommandCache) (fresh int, token bool, markers map[uint32]uint64, ok bool) {
	f, t, m, _, o := CmdCacheFreshBy(cc)
	return f, t, m, o
}

// CmdCacheFreshBy additionally reports the fresh count per client.
func CmdCacheFreshBy(cc *clientpb.CommandCache) (fresh int, token bool, markers map[uint32]uint64, byClient map[uint32]int, ok bool) {
	pc, ok1 := Peek[[]*clientpb.Command](cc, "cache")
	pm, ok2 := Peek[sync.Mutex](cc, "mut")
	ps, ok3 := Peek[map[uint32]uint64](cc, "clientSeqNumbers")
	pr, ok4 := Peek[chan struct{}](cc, "ready")
	if !ok1 || !ok2 || !ok3 || !ok4 {
		return 0, false, nil, nil, false
	}
	pm.Lock()
	defer pm.Unlock()
	markers = map[uint32]uint64{}
	byClient = map[uint32]int{}
	for k, v := range *ps {
		markers[k] = v
	}
	for _, c := range *pc {
		if c.GetSequenceNumber() > markers[c.GetClientID()] {
			fresh++
			byClient[c.GetClientID()]++
		}
	}
	return fresh, len(*pr) > 0, markers, byClient, true
}

// PeekVoter reads the voter's lastVotedView.
func PeekVoter(v *consensus.Voter) (hotstuff.View, bool) {
	p, ok := Peek[hotstuff.View](v, "lastVotedView")
	if !ok {
		return 0, false
	}
	return *p, true
}

// LockOf reads the ruleset's lock (unwrapping byzantine wrappers is not attempted).
func LockOf(rs consensus.Ruleset) (hotstuff.Hash, bool) {
	b, ok, has := peekLock(rs)
	if !has || !ok || b == nil {
		return hotstuff.Hash{}, false
	}
	return b.Hash(), true
}

// StateTuple summarises a node's protocol state for "state unchanged" checks.
func (n *Node) StateTuple() string {
	lv, _ := PeekVoter(n.Voter)
	lk, _ := LockOf(n.Rules)
	hqc := n.VS.HighQC()
	return fmt.Sprintf("view=%d highqc=%d/%x hightc=%d committed=%x lock=%x lastvoted=%d signed=%d",
		n.VS.View(), hqc.View(), hqc.BlockHash(), n.VS.HighTC().View(), n.VS.CommittedBlock().Hash(), lk, lv, n.Rec.Log.CountBy(n.ID))
}

var _ = eventloop.New
