package vk

import (
	"reflect"
	"runtime"
	"strings"
	"unsafe"
)

// Peek returns a pointer to an unexported field of *obj (read-only use, only at
// quiescent points). ok=false if the field does not exist or has another type:
// the caller then degrades to its behavioural form and records the degradation.
func Peek[T any](obj any, field string) (p *T, ok bool) {
	v := reflect.ValueOf(obj)
	if v.Kind() != reflect.Ptr || v.IsNil() {
		return nil, false
	}
	v = v.Elem()
	if v.Kind() != reflect.Struct {
		return nil, false
	}
	f := v.FieldByName(field)
	if !f.IsValid() || !f.CanAddr() {
		return nil, false
	}
	var zero T
	if f.Type() != reflect.TypeOf(&zero).Elem() {
		return nil, false
	}
	return (*T)(unsafe.Pointer(f.UnsafeAddr())), true
}

// StackSite returns the innermost repository frame (pkg.func, no line numbers) of
// the current goroutine's stack, skipping harness frames; used as a panic site.
func StackSite() string {
	buf := make([]byte, 32768)
	buf = buf[:runtime.Stack(buf, false)]
	lines := strings.Split(string(buf), "\n")
	for i := 0; i+1 < len(lines); i++ {
		ln := lines[i]
		if !strings.HasPrefix(ln, "github.com/relab/hotstuff/") && !strings.HasPrefix(ln, "github.com/relab/hotstuff.") {
			continue
		}
		file := lines[i+1]
		if strings.Contains(ln, "/verif/") || strings.Contains(file, "/verif/") || strings.Contains(file, "zz_verif") {
			continue
		}
		fn := ln
		if k := strings.LastIndex(fn, "("); k > 0 {
			fn = fn[:k]
		}
		fn = strings.TrimPrefix(strings.TrimPrefix(fn, "github.com/relab/hotstuff/"), "github.com/relab/")
		// closures of harness code inside repository packages are named like their parent
		if strings.Contains(fn, "subject") {
			continue
		}
		return fn
	}
	return "unknown"
}

// GoroutinesIn counts the goroutines (running, runnable or not yet started) whose stack mentions substr.
// A goroutine that was created with `go f()` but has not run yet is listed with f as its only frame, so this
// sees asynchronous work before it reaches any instrumented point.
func GoroutinesIn(substr string) int {
	buf := make([]byte, 1<<20)
	for {
		n := runtime.Stack(buf, true)
		if n < len(buf) {
			buf = buf[:n]
			break
		}
		buf = make([]byte, 2*len(buf))
	}
	cnt := 0
	for _, g := range strings.Split(string(buf), "\n\n") {
		if strings.Contains(g, substr) {
			cnt++
		}
	}
	return cnt
}
