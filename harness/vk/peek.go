package vk

import (
	"reflect"
	"unsafe"
)

// Peek returns a pointer to an unexported field of *obj (read-only use, only at
// quiescent points). ok=false if the field does not exist or has another type:
// the caller then degrades to its behavioural form and records the degradation.
func Peek[T any](obj any, field string) (p *T, ok bool) {
	v := reflect.ValueOf(obj)
	if v.Kind() != reflect.Ptr || v.IsNil() {
		return nil, false
	}
	v = v.Elem()
	if v.Kind() != reflect.Struct {
		return nil, false
	}
	f := v.FieldByName(field)
	if !f.IsValid() || !f.CanAddr() {
		return nil, false
	}
	var zero T
	if f.Type() != reflect.TypeOf(&zero).Elem() {
		return nil, false
	}
	return (*T)(unsafe.Pointer(f.UnsafeAddr())), true
}
