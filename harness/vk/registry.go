// Package vk holds the shared instruments, reference models and pure campaigns
// of the verification harness. It must not import server, wiring, replica,
// twins or internal/testutil (in-package overlays of server use it).
package vk

import (
	"runtime"
	"runtime/pprof"
	"time"
	"fmt"
	"os"
	"runtime/debug"
	"sort"

	"github.com/relab/hotstuff/verif/vbase"
)

// Campaign runs one part of a property's check.
type Campaign func(p vbase.Params, r *vbase.Result)

var campaigns = map[string]Campaign{}

// Register adds a campaign under a part name such as "C20.arith".
func Register(part string, c Campaign) {
	if _, dup := campaigns[part]; dup {
		panic("duplicate campaign " + part)
	}
	campaigns[part] = c
}

// Parts lists the registered part names.
func Parts() []string {
	var s []string
	for k := range campaigns {
		s = append(s, k)
	}
	sort.Strings(s)
	return s
}

// Main dispatches to the campaign named by the parameters and writes the result.
func Main(p vbase.Params) int {
	c, ok := campaigns[p.Part]
	if !ok {
		fmt.Fprintf(os.Stderr, "unknown part %q; known: %v\n", p.Part, Parts())
		return 3
	}
	debug.SetGCPercent(200)
	if path := os.Getenv("VERIF_HEAPPROF"); path != "" {
		go func() {
			for {
				time.Sleep(20 * time.Second)
				if f, err := os.Create(path); err == nil {
					runtime.GC()
					_ = pprof.WriteHeapProfile(f)
					f.Close()
				}
			}
		}()
	}
	r := vbase.NewResult(p)
	c(p, r)
	if err := r.Write(p.Out); err != nil {
		fmt.Fprintf(os.Stderr, "cannot write result: %v\n", err)
		return 3
	}
	return 0
}
