package vk

import (
	"math/big"

	bls12 "github.com/kilic/bls12-381"
	"github.com/relab/hotstuff"
	"github.com/relab/hotstuff/security/crypto"
)

// Rogue is what a Byzantine replica needs for the BLS rogue-key attack: a scalar x, the public key
// x*G1 - sum(victim keys) it registers, and the claimed signer set victims + itself. x*H(m) then "verifies" as the
// aggregate signature of that set over any m - provided the verifier accepts the registration, which a sound
// proof-of-possession check prevents.
type Rogue struct {
	ID      hotstuff.ID
	X       *big.Int
	PubKey  hotstuff.PublicKey
	Victims []hotstuff.ID
}

// NewRogue derives the rogue key of replica id against the given victims.
func (w *World) NewRogue(id hotstuff.ID, victims []hotstuff.ID, x *big.Int) *Rogue {
	g1 := bls12.NewG1()
	acc := &bls12.PointG1{}
	g1.MulScalarBig(acc, g1.One(), x)
	for _, v := range victims {
		g1.Sub(acc, acc, blsG1Of(w.Keys[v].Public()))
	}
	pk := &crypto.BLS12PublicKey{}
	if err := pk.FromBytes(g1.ToCompressed(acc)); err != nil {
		panic(err)
	}
	return &Rogue{ID: id, X: x, PubKey: pk, Victims: append([]hotstuff.ID(nil), victims...)}
}

// Forge returns x*H(msg) labelled with victims + the rogue replica.
func (r *Rogue) Forge(msg []byte) hotstuff.QuorumSignature {
	g2 := bls12.NewG2()
	pt, err := g2.HashToCurve(msg, []byte(blsSigDomain))
	if err != nil {
		panic(err)
	}
	g2.MulScalarBig(pt, pt, r.X)
	var bf crypto.Bitfield
	for _, id := range r.Victims {
		bf.Add(id)
	}
	bf.Add(r.ID)
	s, err := crypto.RestoreBLS12AggregateSignature(g2.ToCompressed(pt), bf)
	if err != nil {
		panic(err)
	}
	return s
}

// Install registers the rogue key for the Byzantine replica at member m, together with the proof-of-possession the
// Byzantine replica presents (typically a copy of an honest replica's proof).
func (r *Rogue) Install(m *Member, pop string) {
	m.Cfg.AddReplica(&hotstuff.ReplicaInfo{ID: r.ID, PubKey: r.PubKey, Metadata: map[string]string{blsPopKey: pop}})
}

// PopOf returns the proof-of-possession member id presents when connecting.
func (w *World) PopOf(id hotstuff.ID) string {
	return w.M(id).Cfg.ConnectionMetadata()[blsPopKey]
}
