package vk

import (
	"encoding/binary"

	"github.com/relab/hotstuff/internal/proto/clientpb"
)

// AmbiguousBatchTwins returns pairs of batches with DIFFERENT contents that a careless field-by-field encoding maps to
// the same bytes: a batch of two commands, and a one-command batch whose data is the first command's data followed by
// the second command's header (under one of several plausible fixed-width encodings) and data. A sound bytes-to-sign /
// hash function separates every such pair.
func AmbiguousBatchTwins(c1 uint32, s1 uint64, d1 []byte, c2 uint32, s2 uint64, d2 []byte) (two *clientpb.Batch, merged []*clientpb.Batch, names []string) {
	two = &clientpb.Batch{Commands: []*clientpb.Command{
		{ClientID: c1, SequenceNumber: s1, Data: append([]byte(nil), d1...)},
		{ClientID: c2, SequenceNumber: s2, Data: append([]byte(nil), d2...)},
	}}
	type enc struct {
		name string
		hdr  func() []byte
	}
	le32 := func(v uint32) []byte { b := make([]byte, 4); binary.LittleEndian.PutUint32(b, v); return b }
	be32 := func(v uint32) []byte { b := make([]byte, 4); binary.BigEndian.PutUint32(b, v); return b }
	le64 := func(v uint64) []byte { b := make([]byte, 8); binary.LittleEndian.PutUint64(b, v); return b }
	be64 := func(v uint64) []byte { b := make([]byte, 8); binary.BigEndian.PutUint64(b, v); return b }
	encs := []enc{
		{"le32-id,le64-seq", func() []byte { return append(le32(c2), le64(s2)...) }},
		{"be32-id,be64-seq", func() []byte { return append(be32(c2), be64(s2)...) }},
		{"le64-seq,le32-id", func() []byte { return append(le64(s2), le32(c2)...) }},
		{"le32-id,le32-seq", func() []byte { return append(le32(c2), le32(uint32(s2))...) }},
		{"le64-id,le64-seq", func() []byte { return append(le64(uint64(c2)), le64(s2)...) }},
		{"no-header", func() []byte { return nil }},
	}
	for _, e := range encs {
		data := append(append(append([]byte(nil), d1...), e.hdr()...), d2...)
		merged = append(merged, &clientpb.Batch{Commands: []*clientpb.Command{{ClientID: c1, SequenceNumber: s1, Data: data}}})
		names = append(names, e.name)
	}
	return
}
