package vk

import (
	"bytes"
	"context"
	"crypto/sha256"
	"fmt"
	"sort"
	"sync"

	bls12 "github.com/kilic/bls12-381"
	"github.com/relab/hotstuff"
	"github.com/relab/hotstuff/core"
	"github.com/relab/hotstuff/core/eventloop"
	"github.com/relab/hotstuff/core/logging"
	"github.com/relab/hotstuff/internal/proto/clientpb"
	"github.com/relab/hotstuff/security/blockchain"
	"github.com/relab/hotstuff/security/cert"
	"github.com/relab/hotstuff/security/crypto"
	"github.com/relab/hotstuff/security/crypto/keygen"
)

// Schemes lists the signature schemes of the repository.
var Schemes = []string{crypto.NameEDDSA, crypto.NameECDSA, crypto.NameBLS12}

// ---------------------------------------------------------------- logger

// CapLogger is a logging.Logger that counts and optionally keeps the last lines.
// Panic/Fatal levels panic (as zap's would) so they are visible to recover().
type CapLogger struct {
	mu    sync.Mutex
	Name  string
	Keep  int
	Lines []string
	Count map[string]int
	Hook  func(level, msg string)
}

func NewCapLogger(name string, keep int) *CapLogger {
	return &CapLogger{Name: name, Keep: keep, Count: map[string]int{}}
}

func (l *CapLogger) add(level string, msg func() string) {
	l.mu.Lock()
	l.Count[level]++
	keep := l.Keep > 0 || l.Hook != nil
	var s string
	if keep {
		s = msg()
		if l.Keep > 0 {
			if len(l.Lines) >= 2*l.Keep {
				l.Lines = append(l.Lines[:0], l.Lines[len(l.Lines)-l.Keep:]...)
			}
			l.Lines = append(l.Lines, level+" "+l.Name+": "+s)
		}
	}
	h := l.Hook
	l.mu.Unlock()
	if h != nil {
		h(level, s)
	}
}

// Tail returns the last kept lines.
func (l *CapLogger) Tail() []string {
	l.mu.Lock()
	defer l.mu.Unlock()
	if len(l.Lines) > l.Keep {
		return append([]string(nil), l.Lines[len(l.Lines)-l.Keep:]...)
	}
	return append([]string(nil), l.Lines...)
}

func (l *CapLogger) DPanic(a ...any)            { l.add("DPANIC", func() string { return fmt.Sprint(a...) }) }
func (l *CapLogger) DPanicf(t string, a ...any) { l.add("DPANIC", func() string { return fmt.Sprintf(t, a...) }) }
func (l *CapLogger) Debug(a ...any)             { l.add("DEBUG", func() string { return fmt.Sprint(a...) }) }
func (l *CapLogger) Debugf(t string, a ...any)  { l.add("DEBUG", func() string { return fmt.Sprintf(t, a...) }) }
func (l *CapLogger) Error(a ...any)             { l.add("ERROR", func() string { return fmt.Sprint(a...) }) }
func (l *CapLogger) Errorf(t string, a ...any)  { l.add("ERROR", func() string { return fmt.Sprintf(t, a...) }) }
func (l *CapLogger) Info(a ...any)              { l.add("INFO", func() string { return fmt.Sprint(a...) }) }
func (l *CapLogger) Infof(t string, a ...any)   { l.add("INFO", func() string { return fmt.Sprintf(t, a...) }) }
func (l *CapLogger) Warn(a ...any)              { l.add("WARN", func() string { return fmt.Sprint(a...) }) }
func (l *CapLogger) Warnf(t string, a ...any)   { l.add("WARN", func() string { return fmt.Sprintf(t, a...) }) }
func (l *CapLogger) Fatal(a ...any)             { panic("logger.Fatal: " + fmt.Sprint(a...)) }
func (l *CapLogger) Fatalf(t string, a ...any)  { panic("logger.Fatalf: " + fmt.Sprintf(t, a...)) }
func (l *CapLogger) Panic(a ...any)             { panic("logger.Panic: " + fmt.Sprint(a...)) }
func (l *CapLogger) Panicf(t string, a ...any)  { panic("logger.Panicf: " + fmt.Sprintf(t, a...)) }

var _ logging.Logger = (*CapLogger)(nil)

// ---------------------------------------------------------------- sign log

// SignEntry is one real signing operation by a key holder.
type SignEntry struct {
	Seq    int
	Signer hotstuff.ID
	Hash   [32]byte // sha256(message)
	Msg    []byte
	Sig    []byte // signature bytes as produced
}

// SignLog is the ground truth "who really signed what". It is complete because
// every key in a World is only ever used through a RecBase.
type SignLog struct {
	mu      sync.Mutex
	Entries []SignEntry
	by      map[hotstuff.ID]map[[32]byte][]int
}

func NewSignLog() *SignLog { return &SignLog{by: map[hotstuff.ID]map[[32]byte][]int{}} }

func (l *SignLog) add(id hotstuff.ID, msg, sig []byte) {
	h := sha256.Sum256(msg)
	l.mu.Lock()
	idx := len(l.Entries)
	l.Entries = append(l.Entries, SignEntry{Seq: idx, Signer: id, Hash: h, Msg: append([]byte(nil), msg...), Sig: append([]byte(nil), sig...)})
	m := l.by[id]
	if m == nil {
		m = map[[32]byte][]int{}
		l.by[id] = m
	}
	m[h] = append(m[h], idx)
	l.mu.Unlock()
}

// Len returns the number of entries.
func (l *SignLog) Len() int {
	l.mu.Lock()
	defer l.mu.Unlock()
	return len(l.Entries)
}

// Signed reports whether id's key holder signed exactly msg.
func (l *SignLog) Signed(id hotstuff.ID, msg []byte) bool {
	h := sha256.Sum256(msg)
	l.mu.Lock()
	defer l.mu.Unlock()
	return len(l.by[id][h]) > 0
}

// SigsFor returns the signature byte strings id produced over msg.
func (l *SignLog) SigsFor(id hotstuff.ID, msg []byte) [][]byte {
	h := sha256.Sum256(msg)
	l.mu.Lock()
	defer l.mu.Unlock()
	var out [][]byte
	for _, i := range l.by[id][h] {
		out = append(out, l.Entries[i].Sig)
	}
	return out
}

// Since returns entries with Seq >= from.
func (l *SignLog) Since(from int) []SignEntry {
	l.mu.Lock()
	defer l.mu.Unlock()
	if from >= len(l.Entries) {
		return nil
	}
	return append([]SignEntry(nil), l.Entries[from:]...)
}

// CountBy returns how many signatures id produced.
func (l *SignLog) CountBy(id hotstuff.ID) int {
	l.mu.Lock()
	defer l.mu.Unlock()
	n := 0
	for _, v := range l.by[id] {
		n += len(v)
	}
	return n
}

// RecBase wraps a real crypto.Base and records every Sign in the sign log.
// It is handed to cert.NewAuthority, so a configured cache sits outside it.
type RecBase struct {
	Inner crypto.Base
	ID    hotstuff.ID
	Log   *SignLog
	// Yield, if set, is called at the start of Verify/BatchVerify (interleaving widening).
	Yield func()
	// Gate, if set, is called in Verify after Yield with the signature and message; it may block (held verification).
	Gate func(sig hotstuff.QuorumSignature, message []byte)
	// counters
	mu        sync.Mutex
	NVerify   int
	NBatch    int
	NSign     int
	InVerify  int // calls currently inside Verify/BatchVerify
}

func (b *RecBase) Sign(message []byte) (hotstuff.QuorumSignature, error) {
	sig, err := b.Inner.Sign(message)
	if err == nil && sig != nil {
		b.Log.add(b.ID, message, sig.ToBytes())
	}
	b.mu.Lock()
	b.NSign++
	b.mu.Unlock()
	return sig, err
}

func (b *RecBase) Combine(sigs ...hotstuff.QuorumSignature) (hotstuff.QuorumSignature, error) {
	return b.Inner.Combine(sigs...)
}

func (b *RecBase) enter(batch bool) {
	b.mu.Lock()
	if batch {
		b.NBatch++
	} else {
		b.NVerify++
	}
	b.InVerify++
	b.mu.Unlock()
	if b.Yield != nil {
		b.Yield()
	}
}

func (b *RecBase) leave() {
	b.mu.Lock()
	b.InVerify--
	b.mu.Unlock()
}

func (b *RecBase) Verify(sig hotstuff.QuorumSignature, message []byte) error {
	b.enter(false)
	defer b.leave()
	if b.Gate != nil {
		b.Gate(sig, message)
	}
	return b.Inner.Verify(sig, message)
}

func (b *RecBase) BatchVerify(sig hotstuff.QuorumSignature, batch map[hotstuff.ID][]byte) error {
	b.enter(true)
	defer b.leave()
	return b.Inner.BatchVerify(sig, batch)
}

// Busy reports the number of Verify calls in flight.
func (b *RecBase) Busy() int {
	b.mu.Lock()
	defer b.mu.Unlock()
	return b.InVerify
}

var _ crypto.Base = (*RecBase)(nil)

// ---------------------------------------------------------------- block registry

// BlockRegistry knows every block any actor created or sent, by hash.
type BlockRegistry struct {
	mu     sync.Mutex
	blocks map[hotstuff.Hash]*hotstuff.Block
	order  []*hotstuff.Block
}

func NewBlockRegistry() *BlockRegistry {
	r := &BlockRegistry{blocks: map[hotstuff.Hash]*hotstuff.Block{}}
	r.Add(hotstuff.GetGenesis())
	return r
}

// Add registers a block; returns true if it was new.
func (r *BlockRegistry) Add(b *hotstuff.Block) bool {
	if b == nil {
		return false
	}
	r.mu.Lock()
	defer r.mu.Unlock()
	if _, ok := r.blocks[b.Hash()]; ok {
		return false
	}
	r.blocks[b.Hash()] = b
	r.order = append(r.order, b)
	return true
}

func (r *BlockRegistry) Get(h hotstuff.Hash) (*hotstuff.Block, bool) {
	r.mu.Lock()
	defer r.mu.Unlock()
	b, ok := r.blocks[h]
	return b, ok
}

// ByBytes finds the block whose bytes-to-sign hash to the given digest.
func (r *BlockRegistry) ByBytes(msgHash [32]byte) (*hotstuff.Block, bool) {
	// block hash == sha256(block.ToBytes()), so the sign-log digest of a vote is the block hash.
	return r.Get(hotstuff.Hash(msgHash))
}

func (r *BlockRegistry) All() []*hotstuff.Block {
	r.mu.Lock()
	defer r.mu.Unlock()
	return append([]*hotstuff.Block(nil), r.order...)
}

func (r *BlockRegistry) Len() int {
	r.mu.Lock()
	defer r.mu.Unlock()
	return len(r.order)
}

// ---------------------------------------------------------------- stub sender

// SentMsg is a message that left a member through its core.Sender.
type SentMsg struct {
	From hotstuff.ID
	To   hotstuff.ID // 0 = broadcast
	Msg  any         // hotstuff.ProposeMsg | VoteMsg | TimeoutMsg | NewViewMsg
	Sub  []hotstuff.ID
}

// StubSender records what a member sends and serves block fetches from a
// configurable source.
type StubSender struct {
	mu    sync.Mutex
	ID    hotstuff.ID
	Sent  []SentMsg
	Contr []Contribution
	// Fetch answers RequestBlock; nil means "nobody has it".
	Fetch func(h hotstuff.Hash) (*hotstuff.Block, bool)
	// OnSend, if set, is called for each message instead of recording it.
	OnSend func(m SentMsg)
	sub    []hotstuff.ID
	parent *StubSender
}

// Contribution is what a Kauri node sent to its parent.
type Contribution struct {
	From hotstuff.ID
	View hotstuff.View
	Sig  hotstuff.QuorumSignature
}

func (s *StubSender) root() *StubSender {
	if s.parent != nil {
		return s.parent.root()
	}
	return s
}

func (s *StubSender) emit(m SentMsg) {
	m.Sub = s.sub
	r := s.root()
	if r.OnSend != nil {
		r.OnSend(m)
		return
	}
	r.mu.Lock()
	r.Sent = append(r.Sent, m)
	r.mu.Unlock()
}

func (s *StubSender) NewView(id hotstuff.ID, si hotstuff.SyncInfo) error {
	s.emit(SentMsg{From: s.root().ID, To: id, Msg: hotstuff.NewViewMsg{ID: s.root().ID, SyncInfo: si, FromNetwork: true}})
	return nil
}

func (s *StubSender) Vote(id hotstuff.ID, pc hotstuff.PartialCert) error {
	s.emit(SentMsg{From: s.root().ID, To: id, Msg: hotstuff.VoteMsg{ID: s.root().ID, PartialCert: pc}})
	return nil
}

func (s *StubSender) Timeout(msg hotstuff.TimeoutMsg) {
	s.emit(SentMsg{From: s.root().ID, Msg: msg})
}

func (s *StubSender) Propose(p *hotstuff.ProposeMsg) {
	s.emit(SentMsg{From: s.root().ID, Msg: *p})
}

func (s *StubSender) RequestBlock(_ context.Context, h hotstuff.Hash) (*hotstuff.Block, bool) {
	f := s.root().Fetch
	if f == nil {
		return nil, false
	}
	return f(h)
}

func (s *StubSender) Sub(ids []hotstuff.ID) (core.Sender, error) {
	if len(ids) == 0 {
		// as the real sender: a gorums configuration needs at least one node
		return nil, fmt.Errorf("config: missing required node IDs")
	}
	return &StubSender{parent: s, sub: append([]hotstuff.ID(nil), ids...)}, nil
}

func (s *StubSender) SendContributionToParent(view hotstuff.View, sig hotstuff.QuorumSignature) {
	r := s.root()
	r.mu.Lock()
	r.Contr = append(r.Contr, Contribution{From: r.ID, View: view, Sig: sig})
	r.mu.Unlock()
}

// Drain returns and clears the recorded messages.
func (s *StubSender) Drain() []SentMsg {
	s.mu.Lock()
	defer s.mu.Unlock()
	out := s.Sent
	s.Sent = nil
	return out
}

// DrainContr returns and clears the recorded contributions.
func (s *StubSender) DrainContr() []Contribution {
	s.mu.Lock()
	defer s.mu.Unlock()
	out := s.Contr
	s.Contr = nil
	return out
}

var (
	_ core.Sender      = (*StubSender)(nil)
	_ core.KauriSender = (*StubSender)(nil)
)

// ---------------------------------------------------------------- world

// Member is the security layer of one replica: config, recorder, chain, authority.
type Member struct {
	ID     hotstuff.ID
	Cfg    *core.RuntimeConfig
	Raw    crypto.Base
	Rec    *RecBase
	Logger *CapLogger
	EL     *eventloop.EventLoop
	Sender *StubSender
	Chain  *blockchain.Blockchain
	Auth   *cert.Authority
}

// World is a set of n replicas' keys and security layers sharing one sign log.
type World struct {
	N       int
	Scheme  string
	Cache   uint
	Keys    map[hotstuff.ID]hotstuff.PrivateKey
	Members []*Member // index = id-1
	Log     *SignLog
	Blocks  *BlockRegistry
	Opts    []core.RuntimeOption
	// Async leaves vote verification asynchronous (goroutine per vote), as in production.
	Async bool
}

// GenKey generates a private key for the scheme.
func GenKey(scheme string) hotstuff.PrivateKey {
	switch scheme {
	case crypto.NameECDSA:
		k, err := keygen.GenerateECDSAPrivateKey()
		if err != nil {
			panic(err)
		}
		return k
	case crypto.NameEDDSA:
		_, k, err := keygen.GenerateED25519Key()
		if err != nil {
			panic(err)
		}
		return k
	case crypto.NameBLS12:
		k, err := crypto.GenerateBLS12PrivateKey()
		if err != nil {
			panic(err)
		}
		return k
	}
	panic("unknown scheme " + scheme)
}

// key pools: key generation is the dominant fixed cost for BLS; keys carry no
// test semantics, so they are reused across worlds within one process.
var (
	keyPoolMu sync.Mutex
	keyPool   = map[string][]hotstuff.PrivateKey{}
)

func pooledKey(scheme string, i int) hotstuff.PrivateKey {
	keyPoolMu.Lock()
	defer keyPoolMu.Unlock()
	for len(keyPool[scheme]) <= i {
		keyPool[scheme] = append(keyPool[scheme], GenKey(scheme))
	}
	return keyPool[scheme][i]
}

// NewWorld builds n members with the given scheme and cache size. Extra runtime
// options (e.g. core.WithAggregateQC()) apply to every member.
func NewWorld(n int, scheme string, cache uint, opts ...core.RuntimeOption) *World {
	return NewWorldMode(n, scheme, cache, false, opts...)
}

// NewWorldMode is NewWorld with a choice of synchronous or asynchronous vote verification.
func NewWorldMode(n int, scheme string, cache uint, async bool, opts ...core.RuntimeOption) *World {
	w := &World{N: n, Scheme: scheme, Cache: cache, Keys: map[hotstuff.ID]hotstuff.PrivateKey{},
		Log: NewSignLog(), Blocks: NewBlockRegistry(), Opts: opts, Async: async}
	for i := 1; i <= n; i++ {
		w.Keys[hotstuff.ID(i)] = pooledKey(scheme, i-1)
	}
	for i := 1; i <= n; i++ {
		w.Members = append(w.Members, w.newMember(hotstuff.ID(i), w.Keys[hotstuff.ID(i)]))
	}
	w.Connect()
	return w
}

func (w *World) newMember(id hotstuff.ID, key hotstuff.PrivateKey) *Member {
	var all []core.RuntimeOption
	if !w.Async {
		all = append(all, core.WithSyncVerification())
	}
	all = append(all, w.Opts...)
	if w.Cache > 0 {
		all = append(all, core.WithCache(w.Cache))
	}
	m := &Member{ID: id}
	m.Cfg = core.NewRuntimeConfig(id, key, all...)
	m.Logger = NewCapLogger(fmt.Sprintf("r%d", id), 0)
	m.EL = eventloop.New(m.Logger, 1000)
	m.Sender = &StubSender{ID: id}
	raw, err := crypto.New(m.Cfg, w.Scheme)
	if err != nil {
		panic(err)
	}
	m.Raw = raw
	m.Rec = &RecBase{Inner: raw, ID: id, Log: w.Log}
	m.Chain = blockchain.New(m.EL, m.Logger, m.Sender)
	m.Auth = cert.NewAuthority(m.Cfg, m.Chain, m.Rec)
	return m
}

// NewTwin builds an additional member sharing id and key with an existing one.
func (w *World) NewTwin(id hotstuff.ID) *Member {
	m := w.newMember(id, w.Keys[id])
	for _, o := range w.Members {
		m.Cfg.AddReplica(&hotstuff.ReplicaInfo{ID: o.ID, PubKey: w.Keys[o.ID].Public(), Metadata: o.Cfg.ConnectionMetadata()})
	}
	return m
}

// NewMemberWith builds an additional member for an existing id (same key) with extra runtime options
// (e.g. core.WithKauriTree); it knows every member's public key.
func (w *World) NewMemberWith(id hotstuff.ID, extra ...core.RuntimeOption) *Member {
	saved := w.Opts
	w.Opts = append(append([]core.RuntimeOption(nil), saved...), extra...)
	m := w.newMember(id, w.Keys[id])
	w.Opts = saved
	for _, o := range w.Members {
		m.Cfg.AddReplica(&hotstuff.ReplicaInfo{ID: o.ID, PubKey: w.Keys[o.ID].Public(), Metadata: o.Cfg.ConnectionMetadata()})
	}
	return m
}

// NewMemberIncremental builds a member whose configuration is filled one replica at a time, with a quorum query and a
// (failing) certificate check between the registrations - a replica that starts handling traffic before it has connected
// to everybody. Once all replicas are registered it must judge certificates like any other member.
func (w *World) NewMemberIncremental(id hotstuff.ID) *Member {
	m := w.newMember(id, w.Keys[id])
	// it obtains the blocks the others hold through block requests
	m.Sender.Fetch = func(h hotstuff.Hash) (*hotstuff.Block, bool) {
		for _, o := range w.Members {
			if b, ok := o.Chain.LocalGet(h); ok {
				return b, true
			}
		}
		return nil, false
	}
	for _, o := range w.Members {
		_ = m.Cfg.QuorumSize()
		_ = m.Auth.VerifyQuorumCert(hotstuff.NewQuorumCert(nil, 1, hotstuff.GetGenesis().Hash()))
		m.Cfg.AddReplica(&hotstuff.ReplicaInfo{ID: o.ID, PubKey: w.Keys[o.ID].Public(), Metadata: o.Cfg.ConnectionMetadata()})
	}
	return m
}

// Connect makes every member know every member's public key (and BLS proof of possession).
func (w *World) Connect() {
	for _, m := range w.Members {
		for _, o := range w.Members {
			m.Cfg.AddReplica(&hotstuff.ReplicaInfo{ID: o.ID, PubKey: w.Keys[o.ID].Public(), Metadata: o.Cfg.ConnectionMetadata()})
		}
	}
}

// IDsExcept returns the first k configured ids other than skip.
func (w *World) IDsExcept(skip hotstuff.ID, k int) []hotstuff.ID {
	var out []hotstuff.ID
	for _, id := range IDs(w.N) {
		if id != skip && len(out) < k {
			out = append(out, id)
		}
	}
	return out
}

// M returns the member with the given id.
func (w *World) M(id hotstuff.ID) *Member { return w.Members[int(id)-1] }

// Q returns the quorum size by the reference formula (not the repository's).
func (w *World) Q() int { return RefQuorum(w.N) }

// RefFaulty is the reference f: the largest integer with 3f < n.
func RefFaulty(n int) int {
	f := 0
	for 3*(f+1) < n {
		f++
	}
	return f
}

// RefQuorum is the reference quorum size: the smallest q with 2q-n >= f+1.
func RefQuorum(n int) int {
	f := RefFaulty(n)
	q := 0
	for 2*q-n < f+1 {
		q++
	}
	return q
}

// StoreAll stores the block in every member's chain and registers it.
func (w *World) StoreAll(b *hotstuff.Block) {
	w.Blocks.Add(b)
	for _, m := range w.Members {
		m.Chain.Store(b)
	}
}

// Batch makes a command batch with unique commands.
func Batch(client uint32, seq uint64, n int) *clientpb.Batch {
	b := &clientpb.Batch{}
	for i := 0; i < n; i++ {
		b.Commands = append(b.Commands, &clientpb.Command{ClientID: client, SequenceNumber: seq + uint64(i),
			Data: []byte(fmt.Sprintf("c%d-%d", client, seq+uint64(i)))})
	}
	return b
}

// HonestQC lets the given signers really vote for the block and combines the votes.
func (w *World) HonestQC(b *hotstuff.Block, signers []hotstuff.ID) (hotstuff.QuorumCert, []hotstuff.PartialCert, error) {
	var pcs []hotstuff.PartialCert
	for _, id := range signers {
		pc, err := w.M(id).Auth.CreatePartialCert(b)
		if err != nil {
			return hotstuff.QuorumCert{}, nil, err
		}
		pcs = append(pcs, pc)
	}
	qc, err := w.M(signers[0]).Auth.CreateQuorumCert(b, pcs)
	return qc, pcs, err
}

// HonestTimeouts lets the signers really time out in view v, carrying the given QC.
func (w *World) HonestTimeouts(v hotstuff.View, signers []hotstuff.ID, qcOf func(hotstuff.ID) hotstuff.QuorumCert, withMsgSig bool) []hotstuff.TimeoutMsg {
	var out []hotstuff.TimeoutMsg
	for _, id := range signers {
		m := w.M(id)
		vs, err := m.Auth.Sign(v.ToBytes())
		if err != nil {
			panic(err)
		}
		tm := hotstuff.TimeoutMsg{ID: id, View: v, ViewSignature: vs, SyncInfo: hotstuff.NewSyncInfoWith(qcOf(id))}
		if withMsgSig {
			ms, err := m.Auth.Sign(tm.ToBytes())
			if err != nil {
				panic(err)
			}
			tm.MsgSignature = ms
		}
		out = append(out, tm)
	}
	return out
}

// ---------------------------------------------------------------- ground truth oracle

// SigParts decomposes a quorum signature into (signer, bytes) entries. For BLS
// the aggregate cannot be split: entries carry nil bytes and agg holds the point.
type SigParts struct {
	Kind    string // "ecdsa" | "eddsa" | "bls12" | "nil" | "other"
	Signers []hotstuff.ID
	Bytes   [][]byte
	Agg     []byte
}

// Decompose extracts the parts of a signature without using security/cert.
func Decompose(sig hotstuff.QuorumSignature) SigParts {
	switch s := sig.(type) {
	case nil:
		return SigParts{Kind: "nil"}
	case crypto.Multi[*crypto.ECDSASignature]:
		p := SigParts{Kind: crypto.NameECDSA}
		for _, e := range s {
			if e == nil {
				continue
			}
			p.Signers = append(p.Signers, e.Signer())
			p.Bytes = append(p.Bytes, e.ToBytes())
		}
		return p
	case crypto.Multi[*crypto.EDDSASignature]:
		p := SigParts{Kind: crypto.NameEDDSA}
		for _, e := range s {
			if e == nil {
				continue
			}
			p.Signers = append(p.Signers, e.Signer())
			p.Bytes = append(p.Bytes, e.ToBytes())
		}
		return p
	case *crypto.BLS12AggregateSignature:
		if s == nil {
			return SigParts{Kind: "nil"}
		}
		p := SigParts{Kind: crypto.NameBLS12, Agg: s.ToBytes()}
		bf := s.Bitfield()
		bf.ForEach(func(id hotstuff.ID) { p.Signers = append(p.Signers, id) })
		return p
	}
	return SigParts{Kind: "other"}
}

// blsSum adds compressed G2 points with the curve library directly.
func blsSum(points [][]byte) ([]byte, bool) {
	g2 := bls12.NewG2()
	var acc bls12.PointG2
	for _, b := range points {
		p, err := g2.FromCompressed(b)
		if err != nil {
			return nil, false
		}
		g2.Add(&acc, &acc, p)
	}
	return g2.ToCompressed(&acc), true
}

// TrueSigners returns the set of distinct configured replicas that, according to
// the sign log, really produced the signature material presented in sig over the
// message msgOf(id). For BLS the aggregate must equal the sum of the logged
// signatures of exactly the claimed participants; if it does not, nobody counts.
func (w *World) TrueSigners(sig hotstuff.QuorumSignature, msgOf func(hotstuff.ID) []byte) map[hotstuff.ID]bool {
	out := map[hotstuff.ID]bool{}
	p := Decompose(sig)
	switch p.Kind {
	case crypto.NameECDSA, crypto.NameEDDSA:
		if p.Kind != w.Scheme {
			return out
		}
		for i, id := range p.Signers {
			if int(id) < 1 || int(id) > w.N {
				continue
			}
			msg := msgOf(id)
			if msg == nil {
				continue
			}
			for _, s := range w.Log.SigsFor(id, msg) {
				if bytes.Equal(s, p.Bytes[i]) {
					out[id] = true
					break
				}
			}
		}
	case crypto.NameBLS12:
		if p.Kind != w.Scheme {
			return out
		}
		var pts [][]byte
		for _, id := range p.Signers {
			if int(id) < 1 || int(id) > w.N {
				return map[hotstuff.ID]bool{}
			}
			msg := msgOf(id)
			if msg == nil {
				return map[hotstuff.ID]bool{}
			}
			ss := w.Log.SigsFor(id, msg)
			if len(ss) == 0 {
				return map[hotstuff.ID]bool{}
			}
			pts = append(pts, ss[0]) // BLS signatures are deterministic
		}
		if len(pts) == 0 {
			return out
		}
		sum, ok := blsSum(pts)
		if !ok || !bytes.Equal(sum, p.Agg) {
			return map[hotstuff.ID]bool{}
		}
		for _, id := range p.Signers {
			out[id] = true
		}
	}
	return out
}

// Verdict of the ground-truth oracle.
type Verdict int

const (
	MustReject Verdict = iota // fewer than a quorum of distinct replicas really signed the content
	MustAccept                // canonical bootstrap certificate, or honestly signed by a quorum (and well-formed)
	Unjudged                  // the statement takes no side
)

func (v Verdict) String() string { return [...]string{"must-reject", "must-accept", "unjudged"}[v] }

// TrueQC judges a quorum certificate. lookup resolves the referenced block (the
// verifier's knowledge: a verifier that cannot obtain the block may reject).
func (w *World) TrueQC(qc hotstuff.QuorumCert) (Verdict, map[hotstuff.ID]bool) {
	gen := hotstuff.GetGenesis()
	if qc.BlockHash() == gen.Hash() {
		if qc.View() != 0 {
			return MustReject, nil // bootstrap convention: the signature-free QC is canonical only with view 0
		}
		if qc.Signature() == nil {
			return MustAccept, nil
		}
		return Unjudged, nil
	}
	b, ok := w.Blocks.Get(qc.BlockHash())
	if !ok {
		return MustReject, nil // nobody can have signed a block that does not exist
	}
	if qc.Signature() == nil {
		return MustReject, nil
	}
	signers := w.TrueSigners(qc.Signature(), func(hotstuff.ID) []byte { return b.ToBytes() })
	if len(signers) < w.Q() {
		return MustReject, signers
	}
	if b.View() != qc.View() {
		return MustReject, signers // content = block together with the claimed view
	}
	return Unjudged, signers
}

// TrueTC judges a timeout certificate.
// ViewEncodingAmbiguous reports whether the bytes that are signed for view v are also the bytes of another view
// (v with one bit flipped): a signature over such bytes is not a signature over "exactly" the view v, whoever made it.
func ViewEncodingAmbiguous(v hotstuff.View) bool {
	b := v.ToBytes()
	for k := uint(0); k < 64; k++ {
		if bytes.Equal(b, (v ^ hotstuff.View(1)<<k).ToBytes()) {
			return true
		}
	}
	return false
}

func (w *World) TrueTC(tc hotstuff.TimeoutCert) (Verdict, map[hotstuff.ID]bool) {
	if tc.View() == 0 {
		if tc.Signature() == nil {
			return MustAccept, nil
		}
		return Unjudged, nil
	}
	if tc.Signature() == nil {
		return MustReject, nil
	}
	if ViewEncodingAmbiguous(tc.View()) {
		return MustReject, nil // nobody can have signed exactly this view
	}
	signers := w.TrueSigners(tc.Signature(), func(hotstuff.ID) []byte { return tc.View().ToBytes() })
	if len(signers) < w.Q() {
		return MustReject, signers
	}
	return Unjudged, signers
}

// TrueAggQC judges an aggregate QC and returns the highest ground-truth-valid QC
// among those attested by its true signers.
func (w *World) TrueAggQC(agg hotstuff.AggregateQC) (Verdict, map[hotstuff.ID]bool, *hotstuff.QuorumCert) {
	if agg.Sig() == nil {
		return MustReject, nil, nil
	}
	if ViewEncodingAmbiguous(agg.View()) {
		return MustReject, nil, nil // nobody can have signed exactly a timeout message of this view
	}
	signers := w.TrueSigners(agg.Sig(), func(id hotstuff.ID) []byte {
		qc, ok := agg.QCs()[id]
		if !ok {
			return nil
		}
		return hotstuff.TimeoutMsg{ID: id, View: agg.View(), SyncInfo: hotstuff.NewSyncInfoWith(qc)}.ToBytes()
	})
	if len(signers) < w.Q() && w.Scheme == crypto.NameBLS12 {
		// A BLS aggregate is one group element: who signed is decided by which keys and messages it verifies under, and the
		// verifier takes those from the certificate's QC map, not from the participant labels. If the element is exactly the sum
		// of the logged signatures of the map's replicas over their own timeout messages (and the label count agrees, which is
		// all the labels can say), those replicas are the signers whatever the labels claim.
		if p := Decompose(agg.Sig()); p.Kind == crypto.NameBLS12 && len(p.Signers) == len(agg.QCs()) {
			byMap := map[hotstuff.ID]bool{}
			var pts [][]byte
			ok := true
			for id, qc := range agg.QCs() {
				if int(id) < 1 || int(id) > w.N {
					ok = false
					break
				}
				ss := w.Log.SigsFor(id, hotstuff.TimeoutMsg{ID: id, View: agg.View(), SyncInfo: hotstuff.NewSyncInfoWith(qc)}.ToBytes())
				if len(ss) == 0 {
					ok = false
					break
				}
				pts = append(pts, ss[0])
				byMap[id] = true
			}
			if ok && len(pts) > 0 {
				if sum, sok := blsSum(pts); sok && bytes.Equal(sum, p.Agg) {
					signers = byMap
				}
			}
		}
	}
	if len(signers) < w.Q() {
		return MustReject, signers, nil
	}
	var best *hotstuff.QuorumCert
	ids := make([]int, 0, len(signers))
	for id := range signers {
		ids = append(ids, int(id))
	}
	sort.Ints(ids)
	for _, id := range ids {
		qc := agg.QCs()[hotstuff.ID(id)]
		v, _ := w.TrueQC(qc)
		if v == MustReject {
			continue
		}
		if best == nil || qc.View() > best.View() {
			q := qc
			best = &q
		}
	}
	return Unjudged, signers, best
}

// IDs returns 1..n.
func IDs(n int) []hotstuff.ID {
	out := make([]hotstuff.ID, n)
	for i := range out {
		out[i] = hotstuff.ID(i + 1)
	}
	return out
}

// SortedIDs returns the keys of a set in ascending order.
func SortedIDs(m map[hotstuff.ID]bool) []hotstuff.ID {
	out := make([]hotstuff.ID, 0, len(m))
	for id := range m {
		out = append(out, id)
	}
	sort.Slice(out, func(i, j int) bool { return out[i] < out[j] })
	return out
}
