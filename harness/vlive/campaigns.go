package vlive

import (
	"fmt"
	"os"
	"time"

	"github.com/relab/hotstuff"
	"github.com/relab/hotstuff/protocol/leaderrotation"
	"github.com/relab/hotstuff/protocol/rules"
	"github.com/relab/hotstuff/protocol/rules/byzantine"
	"github.com/relab/hotstuff/security/crypto"
	"github.com/relab/hotstuff/verif/vbase"
	"github.com/relab/hotstuff/verif/vk"
)

func init() {
	for _, prop := range []string{"C01", "C03", "C06", "C07", "C09", "C12", "C13", "C14", "C15"} {
		prop := prop
		vk.Register(prop+".live", func(p vbase.Params, r *vbase.Result) { liveCampaign(prop, p, r) })
	}
}

// GenOpts draws one live configuration.
func GenOpts(rng *vbase.Rng) Opts {
	o := Opts{N: []int{4, 4, 7}[rng.Intn(3)], ViewTimeout: 600 * time.Millisecond, WallCap: 25 * time.Second, Byz: map[hotstuff.ID]string{}}
	// Fast-HotStuff never commits on this tree (known finding D12): a live run of it would only wait for the wall cap
	o.Ruleset = []string{rules.NameChainedHotStuff, rules.NameChainedHotStuff, rules.NameSimpleHotStuff}[rng.Intn(3)]
	o.Scheme = []string{crypto.NameEDDSA, crypto.NameEDDSA, crypto.NameECDSA, crypto.NameBLS12}[rng.Intn(4)]
	o.Leader = []string{leaderrotation.NameRoundRobin, leaderrotation.NameRoundRobin, leaderrotation.NameFixed, leaderrotation.NameCarousel, leaderrotation.NameReputation}[rng.Intn(5)]
	o.Batch = uint32(rng.Range(1, 4))
	o.Clients = rng.Range(2, 4)
	o.Cmds = rng.Range(15, 40)
	o.Resubmit = rng.Chance(1, 2)
	switch rng.Intn(4) {
	case 0: // one replica crashes mid-run (never the fixed leader 1)
		o.Crash = hotstuff.ID(rng.Range(2, o.N))
		o.CrashAfter = rng.Range(3, o.Clients*o.Cmds/2)
	case 1: // one replica runs one of the repository's Byzantine rule sets
		if o.Ruleset != rules.NameFastHotStuff {
			o.Byz[hotstuff.ID(rng.Range(2, o.N))] = []string{byzantine.NameFork, byzantine.NameSilentProposer, byzantine.NameIncreaseView}[rng.Intn(3)]
		}
	}
	if o.Scheme == crypto.NameBLS12 {
		o.Cmds = rng.Range(8, 15)
	}
	if rng.Chance(1, 5) {
		// tree-based vote aggregation; the repository's tree-leader rotation goes with it
		o.Kauri = true
		o.N = 7
		o.Leader = leaderrotation.NameTree
		o.Byz = map[hotstuff.ID]string{}
		o.Crash = 0
	}
	return o
}

func liveCampaign(prop string, p vbase.Params, r *vbase.Result) {
	r.Rule = "Engine C: 4 or 7 REAL replicas (replica.New: gorums sender and servers over loopback TCP, real view timers, asynchronous vote verification, ClientIO) in one process under the race detector, " +
		"driven by 2..4 real gorums clients sending 15..40 commands each (then resubmitting executed ones); configurations: ruleset x scheme x leader rotation (round-robin, fixed, carousel, reputation) x batch 1..4 x " +
		"{no fault, one replica stopped mid-run, one replica with the repository's fork / silentproposer / increaseview rules}; monitors on the replicas' own event loops and at the client boundary, stamped by one atomic counter: " +
		"commit sequences hash-linked and prefix-related (C01); offline pass over the sign log of every honest key: vote views strictly increasing, no vote at or below a signed timeout, designated leader for the stateless rotations, parent = certified block (C03); view / high QC / high TC / committed view never decrease, view changes signalled in order (C07); commands handed to execution = commands of the committed blocks in order, " +
		"with no Byzantine replica, every replica receives the same block (hash) as the proposal of a view, directly or relayed through the tree (C12); every QC in an honest proposal names >= q replicas that really signed the certified block (C09); CmdCount and state digest = the committed ledger executed exactly once, success replies only after the execution event, never twice for one command, equal counts => equal digests (C06); " +
		"data races attributed by the property's anchor files; wall-clock only bounds a run; non-trivial: >= 2 honest replicas committed; distinct: configuration and outcome"
	n := p.N(8, 160)
	for i := 0; i < n; i++ {
		rng := vbase.NewRng(p.Seed, "live", prop, p.Shard, p.NShards, i)
		o := GenOpts(rng)
		if (prop == "C09" || prop == "C12") && i%2 == 0 && !o.Kauri {
			o.Kauri, o.N, o.Leader, o.Crash, o.Byz = true, 7, leaderrotation.NameTree, 0, map[hotstuff.ID]string{}
		}
		if os.Getenv("VERIF_LIVE_FORCE") == "crash06" {
			// exploration aid (never used by MANIFEST commands): the configuration of one observed run, repeated
			o = Opts{N: 4, ViewTimeout: 600 * time.Millisecond, WallCap: 25 * time.Second, Byz: map[hotstuff.ID]string{}, Ruleset: rules.NameChainedHotStuff, Scheme: crypto.NameEDDSA,
				Leader: leaderrotation.NameRoundRobin, Batch: 2, Clients: 3, Cmds: 31, Crash: 2, CrashAfter: rng.Range(3, 46), Resubmit: rng.Bool()}
		}
		o.Label = fmt.Sprintf("%s/%d", prop, i)
		o.Prop = prop
		Run(o, r)
		if r.NViolations() > 3 {
			return
		}
	}
}
