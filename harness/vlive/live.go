// Package vlive is Engine C: real replicas (replica.New: GorumsSender, server.Server, ClientIO, real timers and
// asynchronous vote verification) talking gRPC over loopback inside one process, driven by real client calls,
// under the race detector. Monitors are event-loop observers (they run on the replica's own loop goroutine) plus
// the client boundary; every observation gets a stamp from one atomic counter. Only safety is judged: wall-clock
// time never decides a verdict, it only bounds the run.
package vlive

import (
	"context"
	"crypto/sha256"
	"encoding/binary"
	"fmt"
	"net"
	"os"
	"sort"
	"sync"
	"sync/atomic"
	"time"

	"github.com/relab/gorums"
	"github.com/relab/hotstuff"
	"github.com/relab/hotstuff/core"
	"github.com/relab/hotstuff/core/eventloop"
	"github.com/relab/hotstuff/core/logging"
	"github.com/relab/hotstuff/internal/proto/clientpb"
	"github.com/relab/hotstuff/internal/tree"
	"github.com/relab/hotstuff/network"
	"github.com/relab/hotstuff/protocol"
	"github.com/relab/hotstuff/protocol/comm"
	"github.com/relab/hotstuff/protocol/leaderrotation"
	"github.com/relab/hotstuff/protocol/rules"
	"github.com/relab/hotstuff/protocol/rules/byzantine"
	"github.com/relab/hotstuff/protocol/synchronizer"
	"github.com/relab/hotstuff/replica"
	"github.com/relab/hotstuff/security/crypto"
	"github.com/relab/hotstuff/verif/vbase"
	"github.com/relab/hotstuff/verif/vk"
	"github.com/relab/hotstuff/wiring"
	"google.golang.org/grpc"
	"google.golang.org/grpc/credentials/insecure"
	"google.golang.org/protobuf/types/known/emptypb"
)

// Opts describes one live execution.
type Opts struct {
	N           int
	Ruleset     string
	Scheme      string
	Leader      string // leaderrotation name
	Byz         map[hotstuff.ID]string
	ViewTimeout time.Duration
	Batch       uint32
	Clients     int
	Cmds        int           // commands per client
	Crash       hotstuff.ID   // replica stopped mid-run (0 = none)
	CrashAfter  int           // ... after this many client commands completed
	Kauri       bool          // tree-based vote aggregation (comm.Kauri, tree-leader rotation, branch factor 2)
	Resubmit    bool          // clients resubmit already executed commands at the end
	WallCap     time.Duration // bound of the whole run (not a verdict)
	Label       string
	Prop        string // the property this execution is judged for (violations of other properties become notes)
}

func (o Opts) String() string {
	c := "clique"
	if o.Kauri {
		c = "kauri"
	}
	return fmt.Sprintf("live n=%d %s %s %s leader=%s byz=%v batch=%d clients=%dx%d crash=%d timeout=%s", o.N, o.Ruleset, o.Scheme, c, o.Leader, o.Byz, o.Batch, o.Clients, o.Cmds, o.Crash, o.ViewTimeout)
}

type cmdKey struct {
	Client uint32
	Seq    uint64
}

type execRec struct {
	stamp int64
	cmds  []cmdKey
	data  [][]byte
}

type node struct {
	id      hotstuff.ID
	honest  bool
	rep     *replica.Replica
	vs      *protocol.ViewStates
	el      *eventloop.EventLoop
	stopped atomic.Bool
	// stoppedAt is the clock value taken after the replica's servers were closed (0 while it runs). The loopback port of a
	// stopped replica is free again: another process (the checks run many clusters in parallel) may bind it, and this run's
	// clients, which keep redialling the address, then talk to a replica of somebody else's cluster. Replies attributed to a
	// replica after that moment are not its replies.
	stoppedAt atomic.Int64
	// observations (guarded by Live.mu)
	commits  []*hotstuff.Block
	execs    []execRec
	lastVC   hotstuff.View
	snap     [4]hotstuff.View // view, highQC view, highTC view, committed view
	replAddr string
	cliAddr  string
}

// Live is one running cluster with its monitors.
type Live struct {
	O       Opts
	R       *vbase.Result
	nodes   []*node
	clock   atomic.Int64
	mu      sync.Mutex
	bad     atomic.Int64
	succ    map[hotstuff.ID]map[cmdKey]map[*clientpb.Command]int64 // replica -> command -> client call -> stamp of the success reply
	log     *vk.SignLog
	blocks  map[hotstuff.Hash]*hotstuff.Block           // every proposed block seen by any replica
	seenAt  map[propKey]map[hotstuff.Hash][]hotstuff.ID // (view, proposing replica of the message) -> block hash -> receivers
	done    atomic.Int64                                // commands completed (quorum of replies)
	crashed atomic.Int64
}

func (l *Live) violate(prop, rule, format string, a ...any) {
	if prop != l.O.Prop {
		l.R.Note("live run judged for %s observed a violation of %s (%s): "+format, append([]any{l.O.Prop, prop, rule}, a...)...)
		return
	}
	if l.bad.Add(1) > 4 {
		return
	}
	l.R.Violate(vbase.Sig("live-"+rule, "ruleset", l.O.Ruleset), fmt.Sprintf(format, a...)+" ["+l.O.String()+"]", map[string]any{"engine": "live", "opts": l.O.String(), "property": prop})
}

// observers run on the replica's event-loop goroutine.
func (l *Live) attach(nd *node) {
	eventloop.Register(nd.el, func(ev hotstuff.CommitEvent) {
		st := l.clock.Add(1)
		_ = st
		if !nd.honest || ev.Block == nil {
			return
		}
		l.mu.Lock()
		defer l.mu.Unlock()
		b := ev.Block
		prev := hotstuff.GetGenesis()
		if k := len(nd.commits); k > 0 {
			prev = nd.commits[k-1]
		}
		if b.Parent() != prev.Hash() {
			l.violate("C01", "commit-not-linked", "r%d committed block (view %d) whose parent is not the block it committed immediately before (view %d)", nd.id, b.View(), prev.View())
		}
		if b.View() <= prev.View() && prev.Hash() != hotstuff.GetGenesis().Hash() {
			l.violate("C01", "commit-view-order", "r%d committed view %d after view %d", nd.id, b.View(), prev.View())
		}
		pos := len(nd.commits)
		nd.commits = append(nd.commits, b)
		for _, o := range l.nodes {
			if o != nd && o.honest && len(o.commits) > pos && o.commits[pos].Hash() != b.Hash() {
				l.violate("C01", "commit-diverge", "committed ledgers diverge at position %d: r%d has block view %d, r%d has block view %d", pos, nd.id, b.View(), o.id, o.commits[pos].View())
			}
		}
		l.paceLocked(nd)
	}, eventloop.Prioritize())
	eventloop.Register(nd.el, func(ev clientpb.ExecuteEvent) {
		st := l.clock.Add(1)
		if !nd.honest {
			return
		}
		rec := execRec{stamp: st}
		for _, c := range ev.Batch.GetCommands() {
			rec.cmds = append(rec.cmds, cmdKey{c.GetClientID(), c.GetSequenceNumber()})
			rec.data = append(rec.data, append([]byte(nil), c.GetData()...))
		}
		l.mu.Lock()
		nd.execs = append(nd.execs, rec)
		l.mu.Unlock()
	}, eventloop.Prioritize())
	eventloop.Register(nd.el, func(ev hotstuff.ProposeMsg) {
		if ev.Block == nil {
			return
		}
		l.mu.Lock()
		l.blocks[ev.Block.Hash()] = ev.Block
		if l.seenAt == nil {
			l.seenAt = map[propKey]map[hotstuff.Hash][]hotstuff.ID{}
		}
		pk := propKey{ev.Block.View(), ev.ID}
		if l.seenAt[pk] == nil {
			l.seenAt[pk] = map[hotstuff.Hash][]hotstuff.ID{}
		}
		l.seenAt[pk][ev.Block.Hash()] = append(l.seenAt[pk][ev.Block.Hash()], nd.id)
		l.mu.Unlock()
	}, eventloop.Prioritize())
	eventloop.Register(nd.el, func(ev hotstuff.ViewChangeEvent) {
		l.clock.Add(1)
		if !nd.honest {
			return
		}
		l.mu.Lock()
		defer l.mu.Unlock()
		if ev.View <= nd.lastVC && nd.lastVC != 0 {
			l.violate("C07", "viewchange-order", "r%d signalled view %d after view %d", nd.id, ev.View, nd.lastVC)
		}
		nd.lastVC = ev.View
		l.paceLocked(nd)
	}, eventloop.Prioritize())
}

func (l *Live) paceLocked(nd *node) {
	cur := [4]hotstuff.View{nd.vs.View(), nd.vs.HighQC().View(), nd.vs.HighTC().View(), nd.vs.CommittedBlock().View()}
	names := [4]string{"view", "high QC view", "high TC view", "committed view"}
	for i := range cur {
		if cur[i] < nd.snap[i] {
			l.violate("C07", "pace-decreased", "r%d: %s went from %d to %d", nd.id, names[i], nd.snap[i], cur[i])
		}
	}
	nd.snap = cur
	l.R.Obs("live_pacemaker_snapshots", 1)
}

// qspec records which replicas answered a command with success. A client call is identified by its request object.
type qspec struct {
	l *Live
}

func (q *qspec) ExecCommandQF(in *clientpb.Command, replies map[uint32]*emptypb.Empty) (*emptypb.Empty, bool) {
	st := q.l.clock.Add(1)
	k := cmdKey{in.GetClientID(), in.GetSequenceNumber()}
	q.l.mu.Lock()
	for id := range replies {
		m := q.l.succ[hotstuff.ID(id)]
		if m == nil {
			m = map[cmdKey]map[*clientpb.Command]int64{}
			q.l.succ[hotstuff.ID(id)] = m
		}
		if m[k] == nil {
			m[k] = map[*clientpb.Command]int64{}
		}
		if _, seen := m[k][in]; !seen {
			m[k][in] = st
		}
	}
	q.l.mu.Unlock()
	need := q.l.O.N - int(q.l.crashed.Load()) - len(q.l.O.Byz)
	if need < 1 {
		need = 1
	}
	return &emptypb.Empty{}, len(replies) >= need
}

// Run executes one live cluster and judges it.
func Run(o Opts, r *vbase.Result) {
	logging.SetLogLevel("error")
	log := vk.NewSignLog()
	l := &Live{O: o, R: r, succ: map[hotstuff.ID]map[cmdKey]map[*clientpb.Command]int64{}, log: log, blocks: map[hotstuff.Hash]*hotstuff.Block{}}
	var infosR, infosC []hotstuff.ReplicaInfo
	for i := 1; i <= o.N; i++ {
		id := hotstuff.ID(i)
		key := vk.GenKey(o.Scheme)
		ropts := []core.RuntimeOption{core.WithCache(100)}
		if o.Ruleset == rules.NameFastHotStuff {
			ropts = append(ropts, core.WithAggregateQC())
		}
		commName := comm.NameClique
		if o.Kauri {
			tr := tree.NewSimple(id, 2, tree.DefaultTreePos(o.N))
			tr.SetTreeHeightWaitTime(30 * time.Millisecond)
			ropts = append(ropts, core.WithKauriTree(tr))
			commName = comm.NameKauri
		}
		dc := wiring.NewCore(id, "live", key, ropts...)
		sender := network.NewGorumsSender(dc.EventLoop(), dc.Logger(), dc.RuntimeCfg(), insecure.NewCredentials())
		base, err := crypto.New(dc.RuntimeCfg(), o.Scheme)
		if err != nil {
			r.Inconclusive("live: crypto: " + err.Error())
			return
		}
		rec := &vk.RecBase{Inner: base, ID: id, Log: log}
		ds := wiring.NewSecurity(dc.EventLoop(), dc.Logger(), dc.RuntimeCfg(), sender, rec)
		rs, err := rules.New(dc.Logger(), dc.RuntimeCfg(), ds.Blockchain(), o.Ruleset)
		if err != nil {
			r.Inconclusive("live: rules: " + err.Error())
			return
		}
		if b := o.Byz[id]; b != "" {
			rs, err = byzantine.Wrap(dc.RuntimeCfg(), ds.Blockchain(), rs, b)
			if err != nil {
				r.Inconclusive("live: byzantine: " + err.Error())
				return
			}
		}
		vs, err := protocol.NewViewStates(ds.Blockchain(), ds.Authority())
		if err != nil {
			r.Inconclusive("live: viewstates: " + err.Error())
			return
		}
		lr, err := leaderrotation.New(dc.Logger(), dc.RuntimeCfg(), ds.Blockchain(), vs, o.Leader, rs.ChainLength())
		if err != nil {
			r.Inconclusive("live: leader: " + err.Error())
			return
		}
		cm, err := comm.New(dc.Logger(), dc.EventLoop(), dc.RuntimeCfg(), ds.Blockchain(), ds.Authority(), sender, lr, vs, commName)
		if err != nil {
			r.Inconclusive("live: comm: " + err.Error())
			return
		}
		rep, err := replica.New(dc, ds, sender, vs, cm, lr, rs, synchronizer.NewFixedDuration(o.ViewTimeout),
			synchronizer.NewTimeoutRuler(dc.RuntimeCfg(), ds.Authority()), o.Batch)
		if err != nil {
			r.Inconclusive("live: replica: " + err.Error())
			return
		}
		rl, err := net.Listen("tcp", "127.0.0.1:0")
		if err != nil {
			r.Inconclusive("live: listen: " + err.Error())
			return
		}
		cl, err := net.Listen("tcp", "127.0.0.1:0")
		if err != nil {
			r.Inconclusive("live: listen: " + err.Error())
			return
		}
		rep.StartServers(rl, cl)
		nd := &node{id: id, honest: o.Byz[id] == "", rep: rep, vs: vs, el: dc.EventLoop(), replAddr: rl.Addr().String(), cliAddr: cl.Addr().String()}
		l.attach(nd)
		l.nodes = append(l.nodes, nd)
		infosR = append(infosR, hotstuff.ReplicaInfo{ID: id, Address: nd.replAddr, PubKey: key.Public()})
		infosC = append(infosC, hotstuff.ReplicaInfo{ID: id, Address: nd.cliAddr, PubKey: key.Public()})
	}
	for _, nd := range l.nodes {
		if err := nd.rep.Connect(infosR); err != nil {
			r.Inconclusive("live: connect: " + err.Error())
			for _, x := range l.nodes {
				x.rep.Close()
			}
			return
		}
	}
	for _, nd := range l.nodes {
		nd.rep.Start()
	}
	var holders []net.Listener
	var holdMu sync.Mutex
	defer func() {
		holdMu.Lock()
		for _, ln := range holders {
			_ = ln.Close()
		}
		holdMu.Unlock()
	}()
	stop := func(nd *node) {
		if nd.stopped.CompareAndSwap(false, true) {
			nd.rep.Stop()
			nd.stoppedAt.Store(l.clock.Add(1))
			// keep the two ports of the stopped replica occupied until the run is over, so that the peers and clients that keep
			// redialling them do not reach a replica of another cluster running in a parallel process
			for _, addr := range []string{nd.replAddr, nd.cliAddr} {
				if ln, err := net.Listen("tcp", addr); err == nil {
					holdMu.Lock()
					holders = append(holders, ln)
					holdMu.Unlock()
				} else {
					r.Obs("live_ports_of_stopped_replicas_not_held", 1)
				}
			}
		}
	}
	// clients
	ctx, cancel := context.WithTimeout(context.Background(), o.WallCap)
	defer cancel()
	nodesMap := map[string]uint32{}
	for _, ri := range infosC {
		nodesMap[ri.Address] = uint32(ri.ID)
	}
	var wg sync.WaitGroup
	var mgrs []*clientpb.Manager
	for c := 0; c < o.Clients; c++ {
		mgr := clientpb.NewManager(gorums.WithGrpcDialOptions(grpc.WithTransportCredentials(insecure.NewCredentials())))
		cfg, err := mgr.NewConfiguration(&qspec{l}, gorums.WithNodeMap(nodesMap))
		if err != nil {
			r.Inconclusive("live: client configuration: " + err.Error())
			break
		}
		mgrs = append(mgrs, mgr)
		wg.Add(1)
		go func(client uint32) {
			defer wg.Done()
			// a window of outstanding commands, like the repository's client: leaders need fresh commands for every block
			type pend struct {
				p      *clientpb.AsyncEmpty
				cancel context.CancelFunc
				seq    uint64
			}
			var queue, retries []pend
			window := 4 * int(o.Batch)
			seq, mainDone := uint64(1), 0
			// after its o.Cmds commands the client keeps sending filler commands until the main ones are answered:
			// the last blocks only commit when later blocks are built on them (as the repository's client does)
			for ctx.Err() == nil && mainDone < o.Cmds {
				for len(queue) < window {
					cmd := &clientpb.Command{ClientID: client, SequenceNumber: seq, Data: cmdData(client, seq)}
					if o.Resubmit && seq%5 == 0 && seq <= uint64(o.Cmds) {
						// an impatient client: the same command sent twice while it is pending (a retry). Neither call may be
						// answered with success before the replica executed the command.
						dup := &clientpb.Command{ClientID: client, SequenceNumber: seq, Data: cmdData(client, seq)}
						dctx, dcancel := context.WithTimeout(ctx, 3*time.Second)
						retries = append(retries, pend{cfg.ExecCommand(dctx, dup), dcancel, seq})
						r.Obs("live_commands_sent_twice_while_pending", 1)
					}
					cctx, ccancel := context.WithTimeout(ctx, 20*time.Second)
					queue = append(queue, pend{cfg.ExecCommand(cctx, cmd), ccancel, seq})
					seq++
				}
				_, err := queue[0].p.Get()
				queue[0].cancel()
				if queue[0].seq <= uint64(o.Cmds) {
					mainDone++
					if err == nil {
						l.done.Add(1)
					} else {
						r.Obs("live_client_calls_without_full_reply_set", 1)
					}
				}
				queue = queue[1:]
			}
			for _, pd := range queue {
				pd.cancel()
			}
			for _, pd := range retries {
				_, _ = pd.p.Get() // superseded calls are answered late or not at all; the quorum function has recorded what came
				pd.cancel()
			}
			if o.Resubmit && ctx.Err() == nil {
				// a command that was executed must not be executed (answered with success) again
				for _, seq := range []uint64{1, uint64(o.Cmds)} {
					cmd := &clientpb.Command{ClientID: client, SequenceNumber: seq, Data: cmdData(client, seq)}
					cctx, ccancel := context.WithTimeout(ctx, 700*time.Millisecond)
					_, _ = cfg.ExecCommand(cctx, cmd).Get()
					ccancel()
					r.Obs("live_resubmitted_commands", 1)
				}
			}
		}(uint32(10 + c))
	}
	if os.Getenv("VERIF_LIVE_DEBUG") != "" {
		fmt.Fprintln(os.Stderr, "LIVE", o.String())
		go func() {
			for ctx.Err() == nil {
				time.Sleep(time.Second)
				l.mu.Lock()
				line := ""
				for _, nd := range l.nodes {
					line += fmt.Sprintf(" r%d[v=%d hqc=%d c=%d x=%d]", nd.id, nd.vs.View(), nd.vs.HighQC().View(), len(nd.commits), len(nd.execs))
				}
				l.mu.Unlock()
				fmt.Fprintln(os.Stderr, "LIVE", line, "done", l.done.Load())
			}
		}()
	}
	if o.Crash != 0 {
		wg.Add(1)
		go func() {
			defer wg.Done()
			for ctx.Err() == nil && l.done.Load() < int64(o.CrashAfter) {
				time.Sleep(5 * time.Millisecond)
			}
			l.crashed.Add(1)
			stop(l.nodes[o.Crash-1])
			r.Obs("live_replicas_crashed", 1)
		}()
	}
	wg.Wait()
	capHit := ctx.Err() != nil
	for _, m := range mgrs {
		m.Close()
	}
	for _, nd := range l.nodes {
		stop(nd)
	}
	l.judge(capHit)
}

func cmdData(client uint32, seq uint64) []byte {
	return []byte(fmt.Sprintf("live-%d-%d", client, seq))
}

// judge runs the end-of-run oracles (all replicas are stopped: no concurrent access any more).
func (l *Live) judge(capHit bool) {
	r := l.R
	l.mu.Lock()
	defer l.mu.Unlock()
	committedBy := 0
	maxCommits := 0
	for _, nd := range l.nodes {
		if !nd.honest {
			continue
		}
		if len(nd.commits) > 0 {
			committedBy++
		}
		if len(nd.commits) > maxCommits {
			maxCommits = len(nd.commits)
		}
		r.Obs("live_commit_events", int64(len(nd.commits)))
		r.Obs("live_execute_events", int64(len(nd.execs)))
		// reference execution of the ExecuteEvents in dispatch order
		last := map[uint32]uint64{}
		h := sha256.New()
		cnt := uint32(0)
		executedAt := map[cmdKey]int64{}
		for _, e := range nd.execs {
			for i, k := range e.cmds {
				if s, ok := last[k.Client]; ok && s >= k.Seq {
					continue
				}
				last[k.Client] = k.Seq
				h.Write(e.data[i])
				cnt++
				executedAt[k] = e.stamp
			}
		}
		// the commands of the ExecuteEvents are those of the committed blocks, in order
		var fromBlocks []cmdKey
		for _, b := range nd.commits {
			for _, c := range b.Commands().GetCommands() {
				fromBlocks = append(fromBlocks, cmdKey{c.GetClientID(), c.GetSequenceNumber()})
			}
		}
		var fromExec []cmdKey
		for _, e := range nd.execs {
			fromExec = append(fromExec, e.cmds...)
		}
		if fmt.Sprint(fromBlocks) != fmt.Sprint(fromExec) {
			l.violate("C06", "exec-not-ledger-order", "r%d: the commands handed to execution (%d) are not the commands of its committed blocks in ledger order (%d)", nd.id, len(fromExec), len(fromBlocks))
		}
		if got := nd.rep.GetCmdCount(); got != cnt {
			l.violate("C06", "exec-count", "r%d reports %d executed commands; executing its committed ledger exactly once gives %d", nd.id, got, cnt)
		}
		if got, want := fmt.Sprintf("%x", nd.rep.GetHash()), fmt.Sprintf("%x", h.Sum(nil)); got != want {
			l.violate("C06", "exec-digest", "r%d: state digest %s differs from the digest of its committed ledger executed exactly once (%s)", nd.id, got[:16], want[:16])
		}
		// client boundary
		for k, calls := range l.succ[nd.id] {
			first := int64(1) << 62
			if sa := nd.stoppedAt.Load(); sa != 0 {
				kept := map[*clientpb.Command]int64{}
				for in, st := range calls {
					if st < sa {
						kept[in] = st
					} else {
						r.Obs("live_replies_attributed_to_a_replica_after_it_was_stopped", 1)
					}
				}
				calls = kept
				if len(calls) == 0 {
					continue
				}
			}
			for _, st := range calls {
				if st < first {
					first = st
				}
			}
			if len(calls) > 1 {
				l.violate("C06", "success-twice", "r%d answered command (%d,%d) with success in %d separate client calls", nd.id, k.Client, k.Seq, len(calls))
			}
			at, ok := executedAt[k]
			if !ok {
				inEvents, higherBefore := 0, false
				var maxBefore uint64
				for _, e := range nd.execs {
					for _, x := range e.cmds {
						if x == k {
							inEvents++
						}
						if x.Client == k.Client && inEvents == 0 && x.Seq > maxBefore {
							maxBefore = x.Seq
						}
					}
				}
				higherBefore = maxBefore >= k.Seq
				l.violate("C06", "success-not-executed", "r%d answered command (%d,%d) with success but never executed it (the command is in %d of its %d execute events; highest sequence number of that client executed before it: %d, skipped as a duplicate by the reference: %v; replica stopped early: %v)",
					nd.id, k.Client, k.Seq, inEvents, len(nd.execs), maxBefore, higherBefore && inEvents > 0, nd.stopped.Load())
				continue
			}
			if first < at {
				l.violate("C06", "success-before-execute", "r%d answered command (%d,%d) with success (stamp %d) before the execution event that holds it was dispatched (stamp %d)", nd.id, k.Client, k.Seq, first, at)
			}
			r.Obs("live_success_replies_checked", 1)
		}
	}
	l.judgeVotes()
	l.judgeCertificates()
	l.judgeProposalIdentity()
	// equal counts => equal digests
	type cd struct {
		id   hotstuff.ID
		cnt  uint32
		hash string
	}
	var cds []cd
	for _, nd := range l.nodes {
		if nd.honest {
			cds = append(cds, cd{nd.id, nd.rep.GetCmdCount(), fmt.Sprintf("%x", nd.rep.GetHash())})
		}
	}
	sort.Slice(cds, func(i, j int) bool { return cds[i].cnt < cds[j].cnt })
	for i := 1; i < len(cds); i++ {
		if cds[i].cnt == cds[i-1].cnt && cds[i].hash != cds[i-1].hash {
			l.violate("C06", "digest-diverge", "r%d and r%d executed %d commands each but hold different state digests", cds[i-1].id, cds[i].id, cds[i].cnt)
		}
	}
	r.Eval(committedBy >= 2, l.O.String()+fmt.Sprint(maxCommits, l.clock.Load()))
	r.ObsMax("max_live_commits_at_a_replica", int64(maxCommits))
	r.Obs("live_commands_completed", l.done.Load())
	r.Obs("live_events_stamped", l.clock.Load())
	if capHit {
		r.Obs("live_runs_ended_by_wall_cap", 1)
		r.Note("live run ended by its wall cap (not a verdict): %s; %d commands completed, at most %d commits", l.O.String(), l.done.Load(), maxCommits)
	}
	if r.WantSample() {
		r.Sample(map[string]any{"opts": l.O.String(), "commits_max": maxCommits, "commands_completed": l.done.Load(), "replicas_committed": committedBy})
	}
}

// judgeVotes is an offline pass over the sign log of every honest key in signing order (C03): vote views strictly
// increase, no vote at or below a view the replica signed a timeout for, and - for the stateless rotations - the
// voted block was proposed by the designated leader of its view. (Fast-HotStuff is not run live, so a key signs
// only view numbers - 8 bytes - and block bytes.)
func (l *Live) judgeVotes() {
	for _, nd := range l.nodes {
		if nd.honest {
			l.blocks[hotstuff.GetGenesis().Hash()] = hotstuff.GetGenesis()
			for _, b := range nd.commits {
				l.blocks[b.Hash()] = b
			}
		}
	}
	var leaderOf func(hotstuff.View) hotstuff.ID
	switch l.O.Leader {
	case leaderrotation.NameRoundRobin:
		cfg := core.NewRuntimeConfig(1, nil)
		for i := 1; i <= l.O.N; i++ {
			cfg.AddReplica(&hotstuff.ReplicaInfo{ID: hotstuff.ID(i)})
		}
		rr := leaderrotation.NewRoundRobin(cfg)
		leaderOf = rr.GetLeader
	case leaderrotation.NameFixed:
		leaderOf = func(hotstuff.View) hotstuff.ID { return 1 }
	}
	type track struct {
		lastVote, maxTimeout hotstuff.View
		voted, timedOut      bool
	}
	st := map[hotstuff.ID]*track{}
	for _, e := range l.log.Since(0) {
		nd := l.nodes[e.Signer-1]
		if !nd.honest {
			continue
		}
		t := st[e.Signer]
		if t == nil {
			t = &track{}
			st[e.Signer] = t
		}
		if len(e.Msg) == 8 {
			v := hotstuff.View(binary.LittleEndian.Uint64(e.Msg))
			if !t.timedOut || v > t.maxTimeout {
				t.maxTimeout, t.timedOut = v, true
			}
			l.R.Obs("live_timeout_signatures", 1)
			continue
		}
		b, ok := l.blocks[hotstuff.Hash(e.Hash)]
		if !ok {
			l.R.Obs("live_signatures_unclassified", 1)
			continue
		}
		l.R.Obs("live_vote_signatures", 1)
		if t.voted && b.View() <= t.lastVote {
			l.violate("C03", "vote-view-not-increasing", "r%d signed a vote for a block of view %d after having voted in view %d", e.Signer, b.View(), t.lastVote)
		}
		if t.timedOut && b.View() <= t.maxTimeout {
			l.violate("C03", "vote-after-timeout", "r%d signed a vote for view %d after having signed a timeout for view %d", e.Signer, b.View(), t.maxTimeout)
		}
		t.lastVote, t.voted = b.View(), true
		if leaderOf != nil && b.Proposer() != leaderOf(b.View()) {
			l.violate("C03", "vote-non-leader", "r%d voted for a block of view %d proposed by %d, the designated leader of that view is %d", e.Signer, b.View(), b.Proposer(), leaderOf(b.View()))
		}
		if b.Parent() != b.QuorumCert().BlockHash() {
			l.violate("C03", "vote-parent-not-certified", "r%d voted for a block of view %d whose parent is not the block its QC certifies", e.Signer, b.View())
		}
	}
}

// judgeCertificates (C09/C02 in the live cluster): every quorum certificate that honest replicas put into a proposal
// or committed names at least a quorum of replicas, and every named honest replica really signed the certified block
// (sign log) - whoever collected the votes, all-to-one or through the Kauri tree.
func (l *Live) judgeCertificates() {
	q := hotstuff.QuorumSize(l.O.N)
	for _, b := range l.blocks {
		qc := b.QuorumCert()
		if qc.Signature() == nil {
			continue
		}
		if nd := l.nodes[b.Proposer()-1]; b.Proposer() == 0 || int(b.Proposer()) > len(l.nodes) || !nd.honest {
			continue
		}
		target, ok := l.blocks[qc.BlockHash()]
		if !ok {
			l.R.Obs("live_qcs_for_unseen_blocks", 1)
			continue
		}
		msg := target.ToBytes()
		named, genuine := 0, 0
		qc.Signature().Participants().ForEach(func(id hotstuff.ID) {
			named++
			if int(id) >= 1 && int(id) <= len(l.nodes) && (!l.nodes[id-1].honest || l.log.Signed(id, msg)) {
				genuine++
			} else {
				l.violate("C09", "qc-names-nonvoter", "the QC for the block of view %d in r%d's proposal for view %d names replica %d, which never signed that block", target.View(), b.Proposer(), b.View(), id)
			}
		})
		if named < q {
			l.violate("C09", "qc-below-quorum", "the QC for the block of view %d in r%d's proposal names only %d replicas (quorum %d)", target.View(), b.Proposer(), named, q)
		}
		l.R.Obs("live_qcs_checked", 1)
	}
}

type propKey struct {
	view hotstuff.View
	from hotstuff.ID
}

// judgeProposalIdentity (C12 in the live cluster): with no Byzantine replica configured, every replica that receives the
// proposal of one replica for one view - directly or relayed through the Kauri tree - receives the same block (same hash,
// i.e. the same bytes-to-sign). (An honest replica proposes at most once per view; with the history-based rotations two
// replicas may both believe they lead a view, hence the comparison per proposing replica.)
func (l *Live) judgeProposalIdentity() {
	if len(l.O.Byz) > 0 {
		return
	}
	for pk, byHash := range l.seenAt {
		v := pk.view
		l.R.Obs("live_proposal_views_compared", 1)
		if len(byHash) > 1 {
			var desc []string
			for h, ids := range byHash {
				desc = append(desc, fmt.Sprintf("%.8x(proposer %d) at %v", h, l.blocks[h].Proposer(), ids))
			}
			sort.Strings(desc)
			l.violate("C12", "proposal-identity", "the proposal of replica %d for view %d reached the replicas as %d different blocks: %v", pk.from, v, len(byHash), desc)
			return
		}
	}
}
