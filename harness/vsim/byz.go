package vsim

import (
	"fmt"
	"github.com/relab/hotstuff/internal/proto/hotstuffpb"

	"github.com/relab/hotstuff"
	"github.com/relab/hotstuff/internal/proto/clientpb"
	"github.com/relab/hotstuff/protocol/rules"
	"github.com/relab/hotstuff/security/crypto"
	"github.com/relab/hotstuff/verif/vk"
)

// byzState is what a scripted Byzantine actor remembers: everything it was sent.
// It signs only with its own key and may reuse any signature it has seen.
type byzState struct {
	serve    map[hotstuff.Hash]*hotstuff.Block // fabricated blocks it serves to block fetches
	refuse   map[hotstuff.Hash]bool            // blocks it currently refuses to serve
	rogue    *vk.Rogue                         // bls12 rogue key registered at the other replicas (nil otherwise)
	blocks   []*hotstuff.Block
	qcs      []hotstuff.QuorumCert
	tcs      []hotstuff.TimeoutCert
	aggs     []hotstuff.AggregateQC
	votes    []hotstuff.PartialCert
	timeouts []hotstuff.TimeoutMsg
	maxView  hotstuff.View
	seq      uint64
}

func newByzState() *byzState {
	return &byzState{serve: map[hotstuff.Hash]*hotstuff.Block{}, refuse: map[hotstuff.Hash]bool{}, maxView: 1}
}

func (b *byzState) seeSync(si hotstuff.SyncInfo) {
	if qc, ok := si.QC(); ok {
		b.seeQC(qc)
	}
	if tc, ok := si.TC(); ok {
		b.tcs = append(b.tcs, tc)
		if tc.View()+1 > b.maxView {
			b.maxView = tc.View() + 1
		}
	}
	if agg, ok := si.AggQC(); ok {
		b.aggs = append(b.aggs, agg)
	}
}

func (b *byzState) seeQC(qc hotstuff.QuorumCert) {
	for _, o := range b.qcs {
		if o.BlockHash() == qc.BlockHash() && o.View() == qc.View() {
			return
		}
	}
	b.qcs = append(b.qcs, qc)
	if qc.View()+1 > b.maxView {
		b.maxView = qc.View() + 1
	}
}

func (b *byzState) observe(msg any) {
	switch m := msg.(type) {
	case hotstuff.ProposeMsg:
		if m.Block != nil {
			b.blocks = append(b.blocks, m.Block)
			b.seeQC(m.Block.QuorumCert())
			if m.Block.View() > b.maxView {
				b.maxView = m.Block.View()
			}
		}
		if m.AggregateQC != nil {
			b.aggs = append(b.aggs, *m.AggregateQC)
		}
	case hotstuff.VoteMsg:
		b.votes = append(b.votes, m.PartialCert)
	case hotstuff.TimeoutMsg:
		b.timeouts = append(b.timeouts, m)
		b.seeSync(m.SyncInfo)
		if m.View > b.maxView {
			b.maxView = m.View
		}
	case hotstuff.NewViewMsg:
		b.seeSync(m.SyncInfo)
	}
}

func (b *byzState) highQC() hotstuff.QuorumCert {
	best := hotstuff.NewQuorumCert(nil, 0, hotstuff.GetGenesis().Hash())
	for _, qc := range b.qcs {
		if qc.View() > best.View() {
			best = qc
		}
	}
	return best
}

// byzActions is the menu; names are used in traces and evidence.
var byzActions = []string{
	"honest-propose", "equivocate", "parent-not-certified", "fork-old-qc", "inflate-view", "relabel-qc", "repeated-signer-qc",
	"newview-stale", "newview-forged-tc", "timeout-future", "timeout-foreign-sig", "timeout-garbage", "timeout-honest",
	"syncinfo-mixed", "stale-view-propose", "rogue-forge", "content-equivocate", "double-vote", "multi-signer-vote", "vote-unknown-block", "vote-garbage", "aggqc-relabelled", "silence",
}

func (c *Cluster) byzBatch(a *Actor) *clientpb.Batch {
	a.Byz.seq++
	client := uint32(100 + a.ID)
	fresh := &clientpb.Command{ClientID: client, SequenceNumber: a.Byz.seq, Data: CmdData(client, a.Byz.seq)}
	b := &clientpb.Batch{Commands: []*clientpb.Command{fresh}}
	// hostile batches: the same command twice, commands out of sequence order, commands that were proposed
	// (and possibly committed) before - a leader is free to put anything into a block
	switch c.Rng.Intn(8) {
	case 0:
		b.Commands = append(b.Commands, fresh)
	case 1:
		a.Byz.seq++
		next := &clientpb.Command{ClientID: client, SequenceNumber: a.Byz.seq, Data: CmdData(client, a.Byz.seq)}
		b.Commands = []*clientpb.Command{next, fresh} // higher sequence number first
	case 2, 3:
		if n := len(a.Byz.blocks); n > 0 {
			old := a.Byz.blocks[c.Rng.Intn(n)].Commands().GetCommands()
			if len(old) > 0 {
				re := old[c.Rng.Intn(len(old))]
				if c.Rng.Bool() {
					b.Commands = append(b.Commands, re, re)
				} else {
					b.Commands = append([]*clientpb.Command{re}, b.Commands...)
				}
			}
		}
	}
	return b
}

func (c *Cluster) others(a *Actor) []*Actor {
	var out []*Actor
	for _, o := range c.Actors {
		if o.ID != a.ID && !o.Crashed {
			out = append(out, o)
		}
	}
	return out
}

func (c *Cluster) sendAll(a *Actor, msg any) {
	for _, o := range c.others(a) {
		c.enqueue(a, o, msg)
	}
}

func (c *Cluster) registerByzBlock(a *Actor, b *hotstuff.Block) {
	c.W.Blocks.Add(b)
	a.Byz.serve[b.Hash()] = b
}

// ownSig returns a's real signature over msg as pieces for World.assemble-style construction.
func (c *Cluster) sigRepeated(a *Actor, msg []byte, k int) hotstuff.QuorumSignature {
	s, err := a.M.Auth.Sign(msg)
	if err != nil {
		return nil
	}
	raw := s.ToBytes()
	switch c.W.Scheme {
	case crypto.NameECDSA:
		var sigs []*crypto.ECDSASignature
		for i := 0; i < k; i++ {
			sigs = append(sigs, crypto.RestoreECDSASignature(raw, a.ID))
		}
		return crypto.NewMulti(sigs...)
	case crypto.NameEDDSA:
		var sigs []*crypto.EDDSASignature
		for i := 0; i < k; i++ {
			sigs = append(sigs, crypto.RestoreEDDSASignature(raw, a.ID))
		}
		return crypto.NewMulti(sigs...)
	default:
		var bf crypto.Bitfield
		for i := 1; i <= k; i++ {
			bf.Add(hotstuff.ID(i))
		}
		bf.Add(a.ID)
		r, err := crypto.RestoreBLS12AggregateSignature(raw, bf)
		if err != nil {
			return nil
		}
		return r
	}
}

// sigInterleaved builds a multi-signature from (signer, signature bytes) entries in the given order (ECDSA/EdDSA only):
// used for signer lists that repeat a signer non-adjacently, e.g. [a, h, a].
func (c *Cluster) sigInterleaved(ids []hotstuff.ID, raws [][]byte) hotstuff.QuorumSignature {
	switch c.W.Scheme {
	case crypto.NameECDSA:
		var sigs []*crypto.ECDSASignature
		for i, id := range ids {
			sigs = append(sigs, crypto.RestoreECDSASignature(raws[i], id))
		}
		return crypto.NewMulti(sigs...)
	case crypto.NameEDDSA:
		var sigs []*crypto.EDDSASignature
		for i, id := range ids {
			sigs = append(sigs, crypto.RestoreEDDSASignature(raws[i], id))
		}
		return crypto.NewMulti(sigs...)
	}
	return nil
}

// padded returns q entries over msg: the actor's own signature and the given foreign genuine signatures, with the own
// signature repeated in between and at the end ([a, h, a, ...]) - fewer than q distinct signers.
func (c *Cluster) padded(a *Actor, msg []byte, foreign []hotstuff.QuorumSignature, q int) hotstuff.QuorumSignature {
	own, err := a.M.Auth.Sign(msg)
	if err != nil || len(foreign) == 0 {
		return nil
	}
	var ids []hotstuff.ID
	var raws [][]byte
	k := 0
	for len(ids) < q {
		ids = append(ids, a.ID)
		raws = append(raws, own.ToBytes())
		if len(ids) < q && k < len(foreign) && k < q-2 {
			var fid hotstuff.ID
			foreign[k].Participants().ForEach(func(id hotstuff.ID) { fid = id })
			ids = append(ids, fid)
			raws = append(raws, foreign[k].ToBytes())
			k++
		}
	}
	return c.sigInterleaved(ids, raws)
}

// ByzAct performs one crafted action of a scripted actor.
func (c *Cluster) ByzAct(a *Actor, which string) {
	st := a.Byz
	q := c.W.Q()
	hq := st.highQC()
	view := st.maxView
	// a Byzantine leader proposes in a view it actually leads (the rotation is public); now and then it
	// deliberately proposes in a view it does not lead
	if !c.Rng.Chance(1, 6) {
		for d := hotstuff.View(0); d < hotstuff.View(3*c.Cfg.N); d++ {
			if c.publicLeader(view+d) == a.ID {
				view += d
				break
			}
		}
	}
	fhs := c.Cfg.Ruleset == rules.NameFastHotStuff
	c.ByzActs++
	c.trace(TraceEntry{Kind: "byz", From: a.Name(), What: which, View: uint64(view)})
	c.Mon.Obs["byz_"+which]++
	mkProp := func(b *hotstuff.Block) hotstuff.ProposeMsg {
		c.registerByzBlock(a, b)
		pm := hotstuff.ProposeMsg{ID: a.ID, Block: b}
		if fhs && len(st.aggs) > 0 && c.Rng.Bool() {
			ag := st.aggs[len(st.aggs)-1]
			pm.AggregateQC = &ag
		}
		return pm
	}
	signTimeout := func(v hotstuff.View, si hotstuff.SyncInfo) hotstuff.TimeoutMsg {
		vs, _ := a.M.Auth.Sign(v.ToBytes())
		tm := hotstuff.TimeoutMsg{ID: a.ID, View: v, ViewSignature: vs, SyncInfo: si}
		if fhs {
			ms, _ := a.M.Auth.Sign(tm.ToBytes())
			tm.MsgSignature = ms
		}
		return tm
	}
	siQC := hotstuff.NewSyncInfoWith(hq)
	switch which {
	case "honest-propose":
		c.sendAll(a, mkProp(hotstuff.NewBlock(hq.BlockHash(), hq, c.byzBatch(a), view, a.ID)))
	case "equivocate":
		b1 := hotstuff.NewBlock(hq.BlockHash(), hq, c.byzBatch(a), view, a.ID)
		b2 := hotstuff.NewBlock(hq.BlockHash(), hq, c.byzBatch(a), view, a.ID)
		p1, p2 := mkProp(b1), mkProp(b2)
		for _, o := range c.others(a) {
			if c.Rng.Bool() {
				c.enqueue(a, o, p1)
			} else {
				c.enqueue(a, o, p2)
			}
			if c.Rng.Chance(1, 4) {
				c.enqueue(a, o, p1)
				c.enqueue(a, o, p2)
			}
		}
	case "parent-not-certified":
		// QC of the real tip, parent = a fabricated block nobody ever voted for (served through block fetch)
		tip, ok := c.W.Blocks.Get(hq.BlockHash())
		if !ok {
			return
		}
		fab := hotstuff.NewBlock(tip.Hash(), hq, c.byzBatch(a), tip.View()+1, a.ID)
		c.registerByzBlock(a, fab)
		v := max(view, fab.View()+1)
		c.sendAll(a, mkProp(hotstuff.NewBlock(fab.Hash(), hq, c.byzBatch(a), v, a.ID)))
	case "fork-old-qc":
		if len(st.qcs) == 0 {
			return
		}
		old := st.qcs[c.Rng.Intn(len(st.qcs))]
		c.sendAll(a, mkProp(hotstuff.NewBlock(old.BlockHash(), old, c.byzBatch(a), view, a.ID)))
	case "stale-view-propose":
		// a well-formed block for an OLDER view that this actor does not lead (certificate, parent and batch in order):
		// replicas that skipped that view without voting or timing out are the targets
		if len(st.qcs) == 0 || st.maxView < 2 {
			return
		}
		qc := hq
		if c.Rng.Chance(1, 2) {
			qc = st.qcs[c.Rng.Intn(len(st.qcs))]
		}
		if st.maxView <= qc.View()+1 {
			return
		}
		pv := qc.View() + 1 + hotstuff.View(c.Rng.Intn(int(st.maxView-qc.View()-1)))
		if c.publicLeader(pv) == a.ID {
			pv++
		}
		c.sendAll(a, mkProp(hotstuff.NewBlock(qc.BlockHash(), qc, c.byzBatch(a), pv, a.ID)))
	case "content-equivocate":
		// two blocks that differ only in how the same bytes are distributed over their commands (same parent, certificate,
		// view, proposer and timestamp - the second one is made on the wire form): different blocks, whatever the encoding
		client := uint32(100 + a.ID)
		st.seq += 2
		two, merged, _ := vk.AmbiguousBatchTwins(client, st.seq-1, CmdData(client, st.seq-1), client, st.seq, CmdData(client, st.seq))
		tb := hotstuff.NewBlock(hq.BlockHash(), hq, two, view, a.ID)
		tpb := hotstuffpb.BlockToProto(tb)
		tpb.Commands = merged[c.Rng.Intn(len(merged))]
		twin := hotstuffpb.BlockFromProto(tpb)
		p1, p2 := mkProp(tb), mkProp(twin)
		for _, o := range c.others(a) {
			if c.Rng.Bool() {
				c.enqueue(a, o, p1)
			} else {
				c.enqueue(a, o, p2)
			}
		}
	case "rogue-forge":
		// x*H(m) labelled with q-1 honest victims and the actor: only a verifier that accepted the rogue key takes it
		if st.rogue == nil {
			return
		}
		switch c.Rng.Intn(3) {
		case 0: // forged TC for a later view, in a new-view and in a timeout message
			v := view + hotstuff.View(c.Rng.Range(0, 40))
			si := hotstuff.NewSyncInfoWith(hotstuff.NewTimeoutCert(st.rogue.Forge(v.ToBytes()), v))
			si.SetQC(hq)
			for _, o := range c.others(a) {
				c.enqueue(a, o, hotstuff.NewViewMsg{ID: a.ID, SyncInfo: si})
			}
		case 1: // forged QC for an own, never-voted block in a new-view message
			own := hotstuff.NewBlock(hq.BlockHash(), hq, c.byzBatch(a), view, a.ID)
			c.registerByzBlock(a, own)
			fq := hotstuff.NewQuorumCert(st.rogue.Forge(own.ToBytes()), own.View(), own.Hash())
			for _, o := range c.others(a) {
				c.enqueue(a, o, hotstuff.NewViewMsg{ID: a.ID, SyncInfo: hotstuff.NewSyncInfoWith(fq)})
			}
		default: // a proposal on top of a forged QC
			own := hotstuff.NewBlock(hq.BlockHash(), hq, c.byzBatch(a), view, a.ID)
			c.registerByzBlock(a, own)
			fq := hotstuff.NewQuorumCert(st.rogue.Forge(own.ToBytes()), own.View(), own.Hash())
			c.sendAll(a, mkProp(hotstuff.NewBlock(own.Hash(), fq, c.byzBatch(a), view+1, a.ID)))
		}
	case "inflate-view":
		v := view + hotstuff.View([]int{1, 2, 5, 9, 1000}[c.Rng.Intn(5)])
		c.sendAll(a, mkProp(hotstuff.NewBlock(hq.BlockHash(), hq, c.byzBatch(a), v, a.ID)))
	case "relabel-qc":
		if hq.Signature() == nil {
			return
		}
		lab := hq.View() + hotstuff.View(c.Rng.Range(1, 6))
		fq := hotstuff.NewQuorumCert(hq.Signature(), lab, hq.BlockHash())
		c.sendAll(a, mkProp(hotstuff.NewBlock(hq.BlockHash(), fq, c.byzBatch(a), max(view, lab+1), a.ID)))
		if c.Rng.Bool() {
			for _, o := range c.others(a) {
				c.enqueue(a, o, hotstuff.NewViewMsg{ID: a.ID, SyncInfo: hotstuff.NewSyncInfoWith(fq)})
			}
		}
	case "repeated-signer-qc":
		// certify an own, never-voted block with the own signature repeated q times
		own := hotstuff.NewBlock(hq.BlockHash(), hq, c.byzBatch(a), view, a.ID)
		c.registerByzBlock(a, own)
		sig := c.sigRepeated(a, own.ToBytes(), q)
		if c.Rng.Bool() && len(st.votes) > 0 {
			// a block that got one genuine honest vote: that vote padded with the own signature, [a, h, a]
			pc := st.votes[len(st.votes)-1]
			if b, ok := c.W.Blocks.Get(pc.BlockHash()); ok && pc.Signer() != a.ID && pc.Signature() != nil && pc.Signature().Participants().Len() == 1 {
				if ps := c.padded(a, b.ToBytes(), []hotstuff.QuorumSignature{pc.Signature()}, q); ps != nil {
					own, sig = b, ps
				}
			}
		}
		if sig == nil {
			return
		}
		fq := hotstuff.NewQuorumCert(sig, own.View(), own.Hash())
		c.sendAll(a, mkProp(hotstuff.NewBlock(own.Hash(), fq, c.byzBatch(a), view+1, a.ID)))
		for _, o := range c.others(a) {
			if c.Rng.Bool() {
				c.enqueue(a, o, hotstuff.NewViewMsg{ID: a.ID, SyncInfo: hotstuff.NewSyncInfoWith(fq)})
			}
		}
	case "newview-stale":
		si := hotstuff.NewSyncInfo()
		if len(st.qcs) > 0 {
			si.SetQC(st.qcs[c.Rng.Intn(len(st.qcs))])
		}
		if len(st.tcs) > 0 && c.Rng.Bool() {
			si.SetTC(st.tcs[c.Rng.Intn(len(st.tcs))])
		}
		if len(st.aggs) > 0 && c.Rng.Bool() {
			si.SetAggQC(st.aggs[c.Rng.Intn(len(st.aggs))])
		}
		for _, o := range c.others(a) {
			c.enqueue(a, o, hotstuff.NewViewMsg{ID: a.ID, SyncInfo: si})
		}
	case "newview-forged-tc":
		v := view + hotstuff.View(c.Rng.Range(0, 4))
		var sig hotstuff.QuorumSignature
		if c.Rng.Chance(1, 3) && len(st.timeouts) > 0 {
			// sub-quorum padded with the own signature, non-adjacent repeats: [a, h, a]
			t := st.timeouts[len(st.timeouts)-1]
			if t.ID != a.ID && t.ViewSignature != nil && t.ViewSignature.Participants().Len() == 1 {
				v = t.View
				sig = c.padded(a, v.ToBytes(), []hotstuff.QuorumSignature{t.ViewSignature}, q)
			}
		}
		if sig == nil && c.W.Scheme != crypto.NameBLS12 && c.Rng.Chance(1, 3) {
			// a quorum of DISTINCT configured replicas, one genuine signature (the actor's own) and junk for the others
			own, err := a.M.Auth.Sign(v.ToBytes())
			if err == nil {
				var ids []hotstuff.ID
				var raws [][]byte
				pos := c.Rng.Intn(q)
				for _, id := range c.W.IDsExcept(a.ID, q-1) {
					ids = append(ids, id)
					raws = append(raws, c.Rng.Bytes(len(own.ToBytes())))
				}
				ids = append(ids[:pos], append([]hotstuff.ID{a.ID}, ids[pos:]...)...)
				raws = append(raws[:pos], append([][]byte{own.ToBytes()}, raws[pos:]...)...)
				sig = c.sigInterleaved(ids, raws)
			}
		}
		if sig != nil {
		} else if c.Rng.Bool() || len(st.timeouts) == 0 {
			sig = c.sigRepeated(a, v.ToBytes(), q)
		} else {
			// a real timeout certificate relabelled with another view
			if len(st.tcs) > 0 {
				sig = st.tcs[len(st.tcs)-1].Signature()
			} else {
				sig = st.timeouts[len(st.timeouts)-1].ViewSignature
			}
		}
		if sig == nil {
			return
		}
		si := hotstuff.NewSyncInfoWith(hotstuff.NewTimeoutCert(sig, v))
		si.SetQC(hq)
		for _, o := range c.others(a) {
			c.enqueue(a, o, hotstuff.NewViewMsg{ID: a.ID, SyncInfo: si})
		}
	case "syncinfo-mixed":
		// every combination of genuine / forged / absent QC, TC and AggQC in one SyncInfo, sent as new-view and inside a
		// timeout: a verifier that checks only the certificate which decides the view lets the other one through
		own := hotstuff.NewBlock(hq.BlockHash(), hq, c.byzBatch(a), view, a.ID)
		c.registerByzBlock(a, own)
		si := hotstuff.NewSyncInfo()
		switch c.Rng.Intn(5) {
		case 0: // repeated-signer QC for an own block, labelled with an old view
			if sig := c.sigRepeated(a, own.ToBytes(), q); sig != nil {
				si.SetQC(hotstuff.NewQuorumCert(sig, hotstuff.View(c.Rng.Intn(int(min(view, 3))+1)), own.Hash()))
			}
		case 1: // genuine signatures of another block relabelled onto the own block
			if hq.Signature() != nil {
				si.SetQC(hotstuff.NewQuorumCert(hq.Signature(), hotstuff.View(c.Rng.Intn(int(min(view, 3))+1)), own.Hash()))
			}
		case 2: // genuine QC relabelled downwards
			if hq.Signature() != nil && hq.View() > 0 {
				si.SetQC(hotstuff.NewQuorumCert(hq.Signature(), hq.View()-1, hq.BlockHash()))
			}
		case 3: // genuine QC
			si.SetQC(hq)
		}
		switch c.Rng.Intn(5) {
		case 4: // a FRESH genuine TC, assembled from the timeout messages seen for the newest view that has a quorum of them
			byView := map[hotstuff.View]map[hotstuff.ID]hotstuff.TimeoutMsg{}
			for _, t := range st.timeouts {
				if byView[t.View] == nil {
					byView[t.View] = map[hotstuff.ID]hotstuff.TimeoutMsg{}
				}
				byView[t.View][t.ID] = t
			}
			var best hotstuff.View
			for v, m := range byView {
				if len(m)+1 >= q && v > best {
					best = v
				}
			}
			if best > 0 {
				m := byView[best]
				if _, ok := m[a.ID]; !ok {
					m[a.ID] = signTimeout(best, siQC)
				}
				var tms []hotstuff.TimeoutMsg
				for _, t := range m {
					tms = append(tms, t)
				}
				if tc, err := a.M.Auth.CreateTimeoutCert(best, tms); err == nil {
					si.SetTC(tc)
				}
			}
		case 0, 1: // genuine (possibly stale) TC
			if len(st.tcs) > 0 {
				si.SetTC(st.tcs[c.Rng.Intn(len(st.tcs))])
			}
		case 2: // forged TC
			if sig := c.sigRepeated(a, view.ToBytes(), q); sig != nil {
				si.SetTC(hotstuff.NewTimeoutCert(sig, view))
			}
		}
		if fhs && len(st.aggs) > 0 && c.Rng.Bool() {
			si.SetAggQC(st.aggs[c.Rng.Intn(len(st.aggs))])
		}
		for _, o := range c.others(a) {
			c.enqueue(a, o, hotstuff.NewViewMsg{ID: a.ID, SyncInfo: si})
		}
		if c.Rng.Bool() {
			c.sendAll(a, signTimeout(view, si))
		}
	case "timeout-future":
		c.sendAll(a, signTimeout(view+hotstuff.View(c.Rng.Range(1, 50)), siQC))
	case "timeout-honest":
		v := view
		if c.Rng.Bool() && v > 1 {
			v--
		}
		c.sendAll(a, signTimeout(v, siQC))
	case "timeout-foreign-sig":
		if len(st.timeouts) == 0 {
			return
		}
		t := st.timeouts[c.Rng.Intn(len(st.timeouts))]
		t.ID = a.ID // claims somebody else's signatures as its own timeout
		c.sendAll(a, t)
	case "timeout-garbage":
		tm := signTimeout(view, siQC)
		g := c.W.M(a.ID) // keep the type right: garbage bytes inside a signature object of the scheme
		_ = g
		switch c.W.Scheme {
		case crypto.NameECDSA:
			tm.ViewSignature = crypto.NewMulti(crypto.RestoreECDSASignature(c.Rng.Bytes(70), a.ID))
		case crypto.NameEDDSA:
			tm.ViewSignature = crypto.NewMulti(crypto.RestoreEDDSASignature(c.Rng.Bytes(64), a.ID))
		default:
			tm.ViewSignature = c.sigRepeated(a, []byte("garbage"), 1)
		}
		c.sendAll(a, tm)
	case "double-vote", "multi-signer-vote", "vote-unknown-block", "vote-garbage":
		c.byzVote(a, which)
	case "aggqc-relabelled":
		if !fhs || len(st.aggs) == 0 {
			return
		}
		ag := st.aggs[c.Rng.Intn(len(st.aggs))]
		forged := hotstuff.NewAggregateQC(ag.QCs(), ag.Sig(), ag.View()+hotstuff.View(c.Rng.Range(1, 4)))
		pm := mkProp(hotstuff.NewBlock(hq.BlockHash(), hq, c.byzBatch(a), max(view, forged.View()+1), a.ID))
		pm.AggregateQC = &forged
		c.sendAll(a, pm)
		si := hotstuff.NewSyncInfoWith(forged)
		for _, o := range c.others(a) {
			c.enqueue(a, o, hotstuff.NewViewMsg{ID: a.ID, SyncInfo: si})
		}
	case "silence":
	default:
		panic("unknown byz action " + which)
	}
}

// publicLeader answers the (static) leader schedule, as any replica can compute it.
func (c *Cluster) publicLeader(v hotstuff.View) hotstuff.ID {
	for _, o := range c.Actors {
		if o.Node != nil {
			return o.Node.LR.Inner.GetLeader(v)
		}
	}
	return 0
}

func (c *Cluster) byzVote(a *Actor, which string) {
	st := a.Byz
	if len(st.blocks) == 0 {
		return
	}
	recent := st.blocks[max(0, len(st.blocks)-4):]
	send := func(b *hotstuff.Block, pc hotstuff.PartialCert) {
		// to the next leader(s) - by id, all instances
		for _, o := range c.others(a) {
			if c.Rng.Chance(1, 2) {
				c.enqueue(a, o, hotstuff.VoteMsg{ID: a.ID, PartialCert: pc})
			}
		}
	}
	switch which {
	case "double-vote":
		for _, b := range recent {
			pc, err := a.M.Auth.CreatePartialCert(b)
			if err == nil {
				send(b, pc)
				send(b, pc) // duplicate
			}
		}
	case "multi-signer-vote":
		b := recent[len(recent)-1]
		pc, err := a.M.Auth.CreatePartialCert(b)
		if err != nil {
			return
		}
		// combine own signature with a seen vote for the same block, or repeat the own signature
		var other hotstuff.QuorumSignature
		for _, v := range st.votes {
			if v.BlockHash() == b.Hash() && v.Signer() != a.ID {
				other = v.Signature()
			}
		}
		var sig hotstuff.QuorumSignature
		if other != nil {
			sig, _ = a.M.Auth.Combine(pc.Signature(), other)
		}
		if sig == nil {
			sig = c.sigRepeated(a, b.ToBytes(), c.Rng.Range(2, 3))
		}
		if sig != nil {
			send(b, hotstuff.NewPartialCert(sig, b.Hash()))
		}
	case "vote-unknown-block":
		fake := hotstuff.NewBlock(recent[0].Hash(), recent[0].QuorumCert(), c.byzBatch(a), recent[0].View()+1, a.ID)
		pc, err := a.M.Auth.CreatePartialCert(fake)
		if err == nil {
			send(fake, pc)
		}
	case "vote-garbage":
		b := recent[len(recent)-1]
		// a signature over another message labelled with b's hash
		s, err := a.M.Auth.Sign([]byte(fmt.Sprintf("not-the-block-%d", b.View())))
		if err == nil {
			send(b, hotstuff.NewPartialCert(s, b.Hash()))
		}
		if c.W.Scheme == crypto.NameBLS12 {
			inf := make([]byte, 96)
			inf[0] = 0xc0
			if s, err := crypto.RestoreBLS12AggregateSignature(inf, crypto.Bitfield{}); err == nil {
				send(b, hotstuff.NewPartialCert(s, b.Hash()))
			}
		}
	}
}

var _ = vk.IDs
