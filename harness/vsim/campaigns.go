package vsim

import (
	"fmt"

	"github.com/relab/hotstuff/verif/vbase"
	"github.com/relab/hotstuff/verif/vk"
)

func init() {
	vk.Register("debug.pb", func(p vbase.Params, r *vbase.Result) {
		c := RunPrivateBranch(int(p.Seed), "chainedhotstuff", vbase.NewRng(p.Seed, "dbg"), r, func(m *Monitors) { m.Commit = true })
		for _, v := range c.Mon.Viol {
			fmt.Println("VIOL", v.Sig, v.Msg)
		}
	})
	vk.Register("debug.fq", func(p vbase.Params, r *vbase.Result) {
		c := RunForgedQCToNextLeader(int(p.Seed), "eddsa", vbase.NewRng(p.Seed, "dbg"), r, func(m *Monitors) { m.Vote = true })
		for _, v := range c.Mon.Viol {
			fmt.Println("VIOL", v.Sig, v.Msg)
		}
		for _, t := range c.Trace {
			fmt.Printf("%+v\n", t)
		}
	})
	vk.Register("debug.sl", func(p vbase.Params, r *vbase.Result) {
		c := RunStaleLeader(int(p.Seed)%4, Rulesets[int(p.Seed)%3], "eddsa", vbase.NewRng(p.Seed, "dbg"), r, func(m *Monitors) { m.Vote = true })
		for _, v := range c.Mon.Viol {
			fmt.Println("VIOL", v.Sig, v.Msg)
		}
		for _, t := range c.Trace {
			fmt.Printf("%+v\n", t)
		}
	})
	vk.Register("debug.sf", func(p vbase.Params, r *vbase.Result) {
		c := RunSelectiveFetch(Rulesets[int(p.Seed)%2], "eddsa", vbase.NewRng(p.Seed, "dbg"), r, func(m *Monitors) { m.Commit = true })
		for _, v := range c.Mon.Viol {
			fmt.Println("VIOL", v.Sig, v.Msg)
		}
	})
	vk.Register("debug.hl", func(p vbase.Params, r *vbase.Result) {
		RunHiddenLock(int(p.Seed%2), Rulesets[0], "eddsa", vbase.NewRng(p.Seed, "dbg"), r, func(m *Monitors) { m.Commit = true })
	})
	vk.Register("C01.sim", simCampaign("C01", func(m *Monitors) { m.Commit = true }, false))
	vk.Register("C03.sim", simCampaign("C03", func(m *Monitors) { m.Vote = true }, false))
	vk.Register("C07.sim", simCampaign("C07", func(m *Monitors) { m.Pace = true }, false))
	vk.Register("C06.sim", simCampaign("C06", func(m *Monitors) { m.Exec = true; m.Commit = true }, true))
	vk.Register("C13.sim", simCampaign("C13", func(m *Monitors) { m.Blocks = true; m.Commit = true }, true))
}

const simRule = "executions of n in {4,7} REAL replica stacks (3 rulesets, eddsa/ecdsa/bls12, cache on/off, round-robin/fixed/scripted leaders, batch 1..3) under a PRNG scheduler over a simulated network: " +
	"any delivery order, delay, duplication, loss across cut links, random and Twins-style partitions, local timeouts at arbitrary moments (virtual time), crash-stop, and at most f faulty replicas placed as " +
	"twin pairs, scripted Byzantine actors (menu of crafted proposals/votes/timeouts/certificates signed only with their own key or replaying seen signatures) or the repo's byzantine rule wrappers; " +
	"profiles twins-lockstep, async-chaos, byz-leader, partition-heal, fault-free-sync; "

func simCampaign(prop string, enable func(*Monitors), clients bool) vk.Campaign {
	return func(p vbase.Params, r *vbase.Result) {
		switch prop {
		case "C01":
			r.Rule = simRule + "commit monitor: every CommitEvent of an honest node extends the block it committed before (parent link, growing view, no repeat) and all honest commit sequences are pairwise prefix-related after every step; " +
				"non-trivial: >=2 honest nodes committed and the run contained a fault step; distinct: full step trace"
		case "C03":
			r.Rule = simRule + "vote monitor: offline pass over the sign log of every honest key in signing order: votes in strictly increasing views, none at or below a signed timeout, each for a block proposed by the " +
				"designated leader whose QC is ground-truth valid, whose parent is the certified block and whose view is above it; non-trivial: an honest node voted and the run contained a fault step; distinct: full step trace"
		case "C07":
			r.Rule = simRule + "pacemaker monitor polled after every handled message: view, high-QC view, high-TC view, committed view never decrease; one ViewChangeEvent per view entered, in order; a node leaves view v only if the " +
				"sign log holds a quorum of distinct real signers for a block of a view >= v or for timeouts of a view >= v; the certificates it holds are ground-truth valid; non-trivial: a node advanced and the run contained a fault step; distinct: full step trace"
		case "C13":
			r.Rule = simRule + "commands enter through real ClientIO.ExecCommand calls, scripted Byzantine leaders propose hostile batches (repeated, re-proposed, out-of-order commands); stored-block monitor at the end of every execution: " +
				"every block an honest replica holds under hash h - after proposals, fetches, commits, execution and pruning - still serializes to bytes with digest h; non-trivial: >=2 honest replicas executed commands; distinct: full step trace"
		case "C06":
			r.Rule = simRule + "commands enter through real ClientIO.ExecCommand calls (one goroutine per waiting client, retry after a fork abort); execution monitor: at most one success per (client,seq) and replica, success only after " +
				"the replica dispatched an ExecuteEvent holding the command, every success command is in the replica's committed chain, executed count <= distinct committed commands, digest = commands in chain order when every " +
				"executed command had a waiter, digests equal across replicas at equal command counts; non-trivial: >=2 honest replicas executed commands; distinct: full step trace"
		}
		finish := func(c *Cluster, cfgStr string, idx int, profile string) {
			committed, voted, advanced := 0, 0, 0
			for _, a := range c.Actors {
				if !a.Judged() {
					continue
				}
				if len(c.Mon.commits[a.Idx]) > 0 {
					committed++
				}
				if t := c.Mon.voteState[a.ID]; t != nil && t.votes > 0 {
					voted++
				}
				if a.Node.VS.View() > 1 {
					advanced++
				}
			}
			var nt bool
			switch prop {
			case "C01":
				nt = committed >= 2 && c.FaultSteps > 0
			case "C03":
				nt = voted >= 1 && c.FaultSteps > 0
			case "C07":
				nt = advanced >= 1 && c.FaultSteps > 0
			case "C06", "C13":
				ex := 0
				for _, a := range c.Actors {
					if a.Judged() && a.CIO != nil && a.CIO.CmdCount() > 0 {
						ex++
					}
				}
				nt = ex >= 2
			}
			r.Eval(nt, c.TraceSig())
			r.Obs("executions_"+profile, 1)
			r.Obs("steps", int64(c.Step-1))
			r.Obs("messages_delivered", int64(c.Delivered))
			r.Obs("local_timeouts", int64(c.Timeouts))
			r.Obs("byz_actions", int64(c.ByzActs))
			r.Obs("fetch_replies_with_a_wrong_block", int64(c.WrongFetchReplies))
			r.Obs("partition_changes", int64(c.PartChanges))
			r.Obs("crashes", int64(c.Crashes))
			r.Obs("duplicate_deliveries", int64(c.Dups))
			r.Obs("messages_lost_across_cuts", int64(c.Dropped))
			r.Obs("sign_log_entries", int64(c.W.Log.Len()))
			r.Obs("blocks_registered", int64(c.W.Blocks.Len()))
			for k, v := range c.Mon.Obs {
				r.Obs(k, v)
			}
			maxc := 0
			for _, a := range c.Actors {
				if a.Judged() && len(c.Mon.commits[a.Idx]) > maxc {
					maxc = len(c.Mon.commits[a.Idx])
				}
			}
			r.Obs("honest_commits_max_sum", int64(maxc))
			if len(c.Cfg.Twins) > 0 {
				r.Obs("executions_with_twins", 1)
			}
			if len(c.Cfg.Scripted) > 0 {
				r.Obs("executions_with_scripted_byzantine", 1)
			}
			for _, v := range c.Mon.Viol {
				if v.Prop != prop {
					r.Obs("violations_of_other_properties_seen_"+v.Prop, 1)
					continue
				}
				r.Violate(vbase.Sig(v.Sig, "ruleset", c.Cfg.Ruleset), fmt.Sprintf("%s [%s]", v.Msg, cfgStr),
					map[string]any{"engine": "vsim", "seed": p.Seed, "shard": p.Shard, "nshards": p.NShards, "case": idx, "config": cfgStr, "summary": c.Summary(), "trace": c.Trace})
			}
			if nt && r.WantSample() && c.FaultSteps > 2 {
				r.Sample(c.Summary())
			}
		}
		if clients {
			for k, rs := range Rulesets[:2] {
				for variant := 0; variant < 4; variant++ {
					if p.Mine(640 + 4*k + variant) {
						if c := RunContentEquivocation(variant, rs, vbase.NewRng(p.Seed, "content-equivocation", rs, variant), r, enable); c != nil {
							finish(c, c.Cfg.String()+" "+c.Cfg.Label, -2500-4*k-variant, "directed")
						}
					}
				}
			}
			// the catch-up schedule with a lost block-request reply, with commands entering through real client calls
			for k, rs := range Rulesets[:2] {
				for variant := 0; variant < 6; variant++ {
					if p.Mine(520 + 6*k + variant) {
						if c := RunCatchupLostFetch(variant, rs, "eddsa", true, vbase.NewRng(p.Seed, "catchup-lost-fetch", rs, variant), r, enable); c != nil {
							finish(c, c.Cfg.String()+" "+c.Cfg.Label, -2100-6*k-variant, "directed")
						}
					}
				}
			}
		}
		// directed scenario library first
		if !clients {
			di := 0
			for _, name := range DirectedNames {
				for _, rs := range Rulesets {
					for _, nn := range []int{4, 7} {
						for variant := 0; variant < 4; variant++ {
							di++
							if !p.Mine(di) {
								continue
							}
							rng := vbase.NewRng(p.Seed, "directed", name, rs, nn, variant)
							c := RunDirected(name, variant, rs, nn, "eddsa", rng, r, enable)
							if c != nil {
								finish(c, c.Cfg.String()+" "+c.Cfg.Label, -di, "directed")
							}
						}
					}
				}
			}
		}
		if !clients {
			for k, rs := range Rulesets[:2] {
				if p.Mine(500 + k) {
					if c := RunSelectiveFetch(rs, "eddsa", vbase.NewRng(p.Seed, "selective-fetch", rs), r, enable); c != nil {
						finish(c, c.Cfg.String()+" "+c.Cfg.Label, -2000-k, "directed")
						r.Obs("selective_fetch_"+rs+"_commits_r1", int64(len(c.Mon.commits[0])))
					}
				}
			}
			for k, rs := range Rulesets[:2] {
				for variant := 0; variant < 6; variant++ {
					if p.Mine(520 + 6*k + variant) {
						if c := RunCatchupLostFetch(variant, rs, "eddsa", false, vbase.NewRng(p.Seed, "catchup-lost-fetch", rs, variant), r, enable); c != nil {
							finish(c, c.Cfg.String()+" "+c.Cfg.Label, -2100-6*k-variant, "directed")
						}
					}
				}
			}
			// ... and with a Byzantine replica that answers every block request first, with a twin of the requested block
			for k, rs := range Rulesets[:2] {
				for variant := 6; variant < 12; variant++ {
					if p.Mine(540 + 6*k + variant) {
						if c := RunCatchupLostFetch(variant, rs, "eddsa", false, vbase.NewRng(p.Seed, "catchup-lost-fetch", rs, variant), r, enable); c != nil {
							finish(c, c.Cfg.String()+" "+c.Cfg.Label, -2600-6*k-variant, "directed")
						}
					}
				}
			}
			for k, rs := range Rulesets {
				for variant := 0; variant < 4; variant++ {
					if p.Mine(560 + 4*k + variant) {
						if c := RunStaleLeader(variant, rs, "eddsa", vbase.NewRng(p.Seed, "stale-leader", rs, variant), r, enable); c != nil {
							finish(c, c.Cfg.String()+" "+c.Cfg.Label, -2200-4*k-variant, "directed")
						}
					}
				}
			}
			for k, rs := range Rulesets[:2] {
				for variant := 0; variant < 12; variant++ {
					if p.Mine(600 + 12*k + variant) {
						if c := RunPrivateBranch(variant, rs, vbase.NewRng(p.Seed, "private-branch", rs, variant), r, enable); c != nil {
							finish(c, c.Cfg.String()+" "+c.Cfg.Label, -2400-12*k-variant, "directed")
						}
					}
				}
			}
			for variant := 0; variant < 6; variant++ {
				if p.Mine(580 + variant) {
					if c := RunForgedQCToNextLeader(variant, []string{"eddsa", "eddsa", "ecdsa"}[variant%3], vbase.NewRng(p.Seed, "forged-qc-to-next-leader", variant), r, enable); c != nil {
						finish(c, c.Cfg.String()+" "+c.Cfg.Label, -2300-variant, "directed")
					}
				}
			}
			hi := 0
			for _, rs := range Rulesets[:2] {
				for variant := 0; variant < 2; variant++ {
					for _, scheme := range []string{"eddsa", "ecdsa"} {
						hi++
						if !p.Mine(hi) {
							continue
						}
						rng := vbase.NewRng(p.Seed, "hidden-lock", rs, variant, scheme)
						if c := RunHiddenLock(variant, rs, scheme, rng, r, enable); c != nil {
							finish(c, c.Cfg.String()+" "+c.Cfg.Label, -1000-hi, "directed")
							r.Obs(fmt.Sprintf("hidden_lock_%s_v%d_commits_others", rs, variant), int64(len(c.Mon.commits[0])+len(c.Mon.commits[1])))
							r.Obs(fmt.Sprintf("hidden_lock_%s_v%d_commits_victim", rs, variant), int64(len(c.Mon.commits[2])))
						}
					}
				}
			}
		}
		n := p.N(1200, 120000)
		if clients {
			n = p.N(500, 50000)
		}
		for i := 0; i < n; i++ {
			rng := vbase.NewRng(p.Seed, "sim", p.Shard, p.NShards, i)
			profile := Profiles[rng.Weighted([]int{3, 5, 4, 3, 1})]
			cfg := GenConfig(rng, profile)
			cfg.Clients = clients
			cfg.WideSeq = clients && i%2 == 1
			c, err := NewCluster(cfg, rng, r)
			if err != nil {
				r.Inconclusive("cannot build cluster: " + err.Error())
				return
			}
			enable(c.Mon)
			c.OnHang = func(site string, tail []TraceEntry) {
				rep := map[string]any{"engine": "vsim", "seed": p.Seed, "shard": p.Shard, "nshards": p.NShards, "case": i, "config": cfg.String(), "trace_tail": tail}
				if site == "harness" || site == "unknown" {
					r.Inconclusive("execution watchdog fired outside repository code (case " + fmt.Sprint(i) + ")")
				} else if prop == "C05" {
					r.Violate(vbase.Sig("hang", "site", site), fmt.Sprintf("a replica's event loop thread is stuck (60s, no blocking call) inside %s [%s]", site, cfg.String()), rep)
				} else {
					// a hang is a progress failure (C05), not a refutation of this property: this execution is abandoned
					r.Obs("executions_abandoned_replica_hang", 1)
					r.Note("execution abandoned: a replica hangs inside %s (judged under C05)", site)
					r.Inconclusive("a replica hung inside " + site + "; the rest of this shard could not run")
				}
				_ = r.Write(p.Out)
			}
			c.Run()
			c.Close()
			finish(c, cfg.String(), i, profile)
		}
	}
}
