// Package vsim is Engine A/B of the verification harness: a virtual-time cluster
// of real replica stacks (built from exported constructors) driven by a PRNG
// scheduler over a simulated network, with monitors attached to every honest node.
package vsim

import (
	"math/big"

	"context"
	"fmt"
	"github.com/relab/hotstuff/security/crypto"
	"reflect"
	"sort"
	"strings"
	"sync"
	"sync/atomic"
	"time"
	"unsafe"

	"github.com/relab/gorums"
	"github.com/relab/hotstuff"
	"github.com/relab/hotstuff/core"
	"github.com/relab/hotstuff/core/eventloop"
	"github.com/relab/hotstuff/internal/proto/clientpb"
	"github.com/relab/hotstuff/internal/proto/hotstuffpb"
	"github.com/relab/hotstuff/network"
	"github.com/relab/hotstuff/protocol/leaderrotation"
	"github.com/relab/hotstuff/protocol/rules"
	"github.com/relab/hotstuff/server"
	"github.com/relab/hotstuff/verif/vbase"
	"github.com/relab/hotstuff/verif/vk"
)

// ActorKind says what stands behind a network endpoint.
type ActorKind int

const (
	Honest   ActorKind = iota // a real stack, judged by the monitors
	Twin                      // one of two real stacks sharing id and key (Byzantine as a pair)
	ByzRules                  // a real stack running one of the repo's byzantine rule wrappers
	Scripted                  // no stack: a key, a memory of what it saw, and a menu of crafted actions
	Puppet                    // Engine B: key held by the harness; does nothing by itself
)

func (k ActorKind) String() string {
	return [...]string{"honest", "twin", "byzrules", "scripted", "puppet"}[k]
}

// Actor is one endpoint of the simulated network.
type Actor struct {
	Idx     int
	ID      hotstuff.ID
	TwinNo  int
	Kind    ActorKind
	M       *vk.Member
	Node    *vk.Node
	CIO     *server.ClientIO
	Crashed bool
	Byz     *byzState
	Group   int // current partition group
}

func (a *Actor) Name() string {
	if a.TwinNo > 0 {
		return fmt.Sprintf("r%d.%d", a.ID, a.TwinNo)
	}
	return fmt.Sprintf("r%d", a.ID)
}

// Judged reports whether the monitors hold this actor to the honest-replica properties.
func (a *Actor) Judged() bool { return a.Kind == Honest }

// Config describes one execution.
type Config struct {
	N         int
	Ruleset   string
	Scheme    string
	Cache     uint
	Leader    string // "round-robin" | "fixed" | "script"
	Sched     []hotstuff.ID
	BatchSize uint32
	Twins     []hotstuff.ID
	Scripted  []hotstuff.ID
	ByzRules  map[hotstuff.ID]string
	Puppets   []hotstuff.ID
	Profile   string
	Intensity int // 0 calm, 1 medium, 2 hostile
	Steps     int
	Clients   bool // commands enter through real ClientIO.ExecCommand calls (C06)
	WideSeq   bool // the shared clients number their commands from 2<<32, 1<<32 and 0: the identifiers (1,2<<32+i), (2,1<<32+i), (3,i) agree in every 32-bit window
	NilSigs   bool // scripted actors may send messages with absent signature objects (C10-class)
	Async     bool // asynchronous vote verification (goroutine per vote), as in production
	FetchLoss int  // percent of block requests whose reply is lost while faults are allowed
	RogueKey  bool // bls12: the scripted Byzantine replica registered the rogue key x*G1 - sum(victim keys) with a copied proof-of-possession
	Label     string
}

func (c Config) String() string {
	s := fmt.Sprintf("n=%d %s %s cache=%d leader=%s twins=%v scripted=%v byzrules=%v profile=%s steps=%d batch=%d",
		c.N, c.Ruleset, c.Scheme, c.Cache, c.Leader, c.Twins, c.Scripted, c.ByzRules, fmt.Sprintf("%s/%d", c.Profile, c.Intensity), c.Steps, c.BatchSize)
	if c.FetchLoss > 0 {
		s += fmt.Sprintf(" fetchloss=%d%%", c.FetchLoss)
	}
	if c.RogueKey {
		s += " roguekey"
	}
	if c.WideSeq {
		s += " wideseq"
	}
	return s
}

// Pending is a message in flight.
type Pending struct {
	Seq  int
	From int
	To   int
	Msg  any
	Step int
	Held bool // delayed by one round already (bounded-delay rounds)
}

// TraceEntry is one scheduler step (for replay files and distinct-trace accounting).
type TraceEntry struct {
	Kind string `json:"k"`
	From string `json:"f,omitempty"`
	To   string `json:"t,omitempty"`
	What string `json:"w,omitempty"`
	View uint64 `json:"v,omitempty"`
}

// Cluster is one execution's world.
type Cluster struct {
	Cfg               Config
	W                 *vk.World
	Actors            []*Actor
	ByID              map[hotstuff.ID][]*Actor
	Pool              []Pending
	seq               int
	Step              int
	Rng               *vbase.Rng
	lateTimers        []lateTimer
	WrongFetchReplies int
	// CachedBatchWithoutWakeup counts observations of a command cache that holds a full fresh batch but no wake-up token.
	CachedBatchWithoutWakeup   int
	OnCachedBatchWithoutWakeup func(a *Actor, fresh int)
	staggerFirst               *Actor // directed scenarios: the replica whose timer is the first to fire in the next idle round
	Trace                      []TraceEntry
	Mon                        *Monitors
	R                          *vbase.Result
	Panic                      any
	PanicAt                    string
	// statistics of this execution
	Delivered, Dropped, Dups, Timeouts, ByzActs, PartChanges, Crashes int
	FaultSteps                                                        int
	cmd                                                               *cmdFeed
	sending                                                           int // actor idx whose handlers are running (sender attribution)
	// Cut lists individual links that are down (in addition to the partition groups).
	Cut map[[2]int]bool
	// FetchDeny: the next k block requests for a hash get no reply (lost reply); FetchLost counts lost requests.
	FetchDeny map[hotstuff.Hash]int
	FetchLost int
	// FetchTwin: the next k block requests for a hash are answered first by a Byzantine replica, with a twin of the block.
	FetchTwin map[hotstuff.Hash]int
	// CutLoss: every message sent across a cut link is lost (instead of half of them being delayed).
	CutLoss bool
	// NoFaults switches off fault injection inside lockstepRound (synchronous suffix of C05).
	NoFaults bool
	// OnHang is called by the execution watchdog with the innermost repository frame the simulator thread is stuck in.
	OnHang func(site string, traceTail []TraceEntry)
}

// leaderFor builds the leader rotation for a member.
func leaderFor(cfg Config, m *vk.Member) leaderrotation.LeaderRotation {
	switch cfg.Leader {
	case "fixed":
		return leaderrotation.NewFixed(1)
	case "script":
		return vk.ScriptLeader{Sched: cfg.Sched}
	}
	return leaderrotation.NewRoundRobin(m.Cfg)
}

// NewCluster builds the world, the actors and their stacks.
func NewCluster(cfg Config, rng *vbase.Rng, r *vbase.Result) (*Cluster, error) {
	var opts []core.RuntimeOption
	if cfg.Ruleset == rules.NameFastHotStuff {
		opts = append(opts, core.WithAggregateQC())
	}
	w := vk.NewWorldMode(cfg.N, cfg.Scheme, cfg.Cache, cfg.Async, opts...)
	c := &Cluster{Cfg: cfg, W: w, ByID: map[hotstuff.ID][]*Actor{}, Rng: rng, R: r, sending: -1}
	has := func(l []hotstuff.ID, id hotstuff.ID) bool {
		for _, x := range l {
			if x == id {
				return true
			}
		}
		return false
	}
	add := func(a *Actor) {
		a.Idx = len(c.Actors)
		c.Actors = append(c.Actors, a)
		c.ByID[a.ID] = append(c.ByID[a.ID], a)
	}
	for _, id := range vk.IDs(cfg.N) {
		switch {
		case has(cfg.Scripted, id):
			add(&Actor{ID: id, Kind: Scripted, M: w.M(id), Byz: newByzState()})
		case has(cfg.Puppets, id):
			add(&Actor{ID: id, Kind: Puppet, M: w.M(id), Byz: newByzState()})
		case has(cfg.Twins, id):
			add(&Actor{ID: id, Kind: Twin, TwinNo: 1, M: w.M(id)})
			add(&Actor{ID: id, Kind: Twin, TwinNo: 2, M: w.NewTwin(id)})
		case cfg.ByzRules[id] != "":
			add(&Actor{ID: id, Kind: ByzRules, M: w.M(id)})
		default:
			add(&Actor{ID: id, Kind: Honest, M: w.M(id)})
		}
	}
	for _, a := range c.Actors {
		a := a
		a.M.Logger.Name = a.Name()
		a.M.Sender.OnSend = func(m vk.SentMsg) { c.onSend(a, m) }
		a.M.Sender.Fetch = func(h hotstuff.Hash) (*hotstuff.Block, bool) { return c.fetch(a, h) }
		if a.Kind == Scripted || a.Kind == Puppet {
			continue
		}
		node, err := vk.NewNode(a.M, vk.NodeOpts{Ruleset: cfg.Ruleset, Byzantine: cfg.ByzRules[a.ID], Leader: leaderFor(cfg, a.M), BatchSize: cfg.BatchSize})
		if err != nil {
			return nil, err
		}
		a.Node = node
		if cfg.Clients {
			a.CIO = server.NewClientIO(a.M.EL, a.M.Logger, node.Cmds)
		}
	}
	if cfg.RogueKey && cfg.Scheme == crypto.NameBLS12 && len(cfg.Scripted) > 0 {
		// key-registration adversary: victims are q-1 honest replicas; the presented proof is a copy of a victim's
		var byz *Actor
		var honest []hotstuff.ID
		for _, a := range c.Actors {
			if a.Kind == Scripted && byz == nil {
				byz = a
			} else if a.Kind == Honest {
				honest = append(honest, a.ID)
			}
		}
		if byz != nil && len(honest) >= w.Q()-1 && w.Q() >= 2 {
			x := new(big.Int).SetUint64(rng.Uint64() | 1)
			x.Lsh(x, 64).Or(x, new(big.Int).SetUint64(rng.Uint64()))
			byz.Byz.rogue = w.NewRogue(byz.ID, honest[:w.Q()-1], x)
			pop := w.PopOf(honest[rng.Intn(w.Q()-1)])
			for _, a := range c.Actors {
				if a != byz {
					byz.Byz.rogue.Install(a.M, pop)
				}
			}
		}
	}
	c.cmd = newCmdFeed(c)
	c.Mon = newMonitors(c)
	return c, nil
}

// Close releases goroutines and timers of the execution.
func (c *Cluster) Close() {
	for _, a := range c.Actors {
		if a.Node != nil {
			a.Node.Stop()
		}
	}
	c.cmd.close()
}

func (c *Cluster) trace(e TraceEntry) {
	if len(c.Trace) < 6000 {
		c.Trace = append(c.Trace, e)
	}
}

// ---------------------------------------------------------------- network

func (c *Cluster) linkOpen(from, to *Actor) bool {
	if c.Cut != nil && (c.Cut[[2]int{from.Idx, to.Idx}] || c.Cut[[2]int{to.Idx, from.Idx}]) {
		return false
	}
	return from.Group == to.Group
}

func msgKind(m any) (string, uint64) {
	switch x := m.(type) {
	case hotstuff.ProposeMsg:
		if x.Block != nil {
			return "propose", uint64(x.Block.View())
		}
		return "propose", 0
	case hotstuff.VoteMsg:
		return "vote", 0
	case hotstuff.TimeoutMsg:
		return "timeout", uint64(x.View)
	case hotstuff.NewViewMsg:
		return "newview", 0
	}
	return fmt.Sprintf("%T", m), 0
}

// onSend is called when a stack hands a message to its core.Sender.
func (c *Cluster) onSend(from *Actor, m vk.SentMsg) {
	if pm, ok := m.Msg.(hotstuff.ProposeMsg); ok && pm.Block != nil {
		c.W.Blocks.Add(pm.Block)
		c.Mon.onBlockSeen(pm.Block)
	}
	var targets []*Actor
	if m.To == 0 {
		for _, a := range c.Actors {
			if a.ID != from.ID {
				targets = append(targets, a)
			}
		}
	} else {
		targets = c.ByID[m.To]
	}
	for _, to := range targets {
		c.enqueue(from, to, m.Msg)
	}
}

func (c *Cluster) enqueue(from, to *Actor, msg any) {
	if !c.linkOpen(from, to) && (c.CutLoss || c.Rng.Bool()) {
		c.Dropped++ // loss inside the partition model: only across a cut link
		return
	}
	c.seq++
	c.Pool = append(c.Pool, Pending{Seq: c.seq, From: from.Idx, To: to.Idx, Msg: msg, Step: c.Step})
}

// fetch serves a block request from whoever is reachable.
func (c *Cluster) fetch(a *Actor, h hotstuff.Hash) (*hotstuff.Block, bool) {
	if k := c.FetchDeny[h]; k > 0 {
		c.FetchDeny[h] = k - 1
		c.FetchLost++
		c.trace(TraceEntry{Kind: "fetch-lost", From: a.Name()})
		return nil, false
	}
	if c.Cfg.FetchLoss > 0 && !c.NoFaults && c.Rng.Intn(100) < c.Cfg.FetchLoss {
		c.FetchLost++
		c.FaultSteps++
		c.trace(TraceEntry{Kind: "fetch-lost", From: a.Name()})
		return nil, false
	}
	// the replies of the reachable replicas go through the real quorum function of the fetch call, one by one in arrival
	// order, as gorums does: honest replicas answer with the block if they hold it; a Byzantine replica answers with the
	// block, with nothing, or with another block (a twin of the requested one: same parent, certificate, view and proposer,
	// other commands)
	in := &hotstuffpb.BlockHash{Hash: h[:]}
	replies := map[uint32]*hotstuffpb.Block{}
	order := make([]*Actor, 0, len(c.Actors))
	for _, o := range c.Actors {
		if o == a || o.Crashed || !c.linkOpen(a, o) {
			continue
		}
		order = append(order, o)
	}
	// arrival order: a rotation determined by requester, block and step (no PRNG draw: schedules stay what they were)
	if len(order) > 1 {
		k := int(vbase.Hash64(fmt.Sprint("fetch-order", a.Idx, h, c.Step)) % uint64(len(order)))
		order = append(order[k:], order[:k]...)
	}
	alwaysWrongFirst := c.FetchTwin[h] > 0
	if alwaysWrongFirst {
		c.FetchTwin[h]--
		sort.SliceStable(order, func(i, j int) bool { return order[i].Byz != nil && order[j].Byz == nil })
	}
	for _, o := range order {
		var reply *hotstuff.Block
		if o.Node != nil {
			if b, ok := o.M.Chain.LocalGet(h); ok {
				reply = b
			}
		} else if o.Byz != nil {
			// a Byzantine replica answers block requests selectively (fixed per requester and block)
			if b, ok := o.Byz.serve[h]; ok && !o.Byz.refuse[h] && (c.Cfg.Profile == "directed:selective-fetch" || vbase.Hash64(fmt.Sprint(a.Idx, h, c.Cfg.Steps))%3 != 0 || c.Cfg.Profile == "subject-votes") {
				reply = b
			} else if right, known := c.W.Blocks.Get(h); known && right.View() > 0 && (alwaysWrongFirst || vbase.Hash64(fmt.Sprint("wrong-reply", a.Idx, h, c.Step))%2 == 0) {
				reply = hotstuff.NewBlock(right.Parent(), right.QuorumCert(), vk.Batch(4040, uint64(c.Step)+1, 1), right.View(), right.Proposer())
				c.WrongFetchReplies++
				c.trace(TraceEntry{Kind: "fetch-wrong-reply", From: o.Name(), To: a.Name()})
			}
		}
		if reply == nil {
			continue
		}
		replies[uint32(o.ID)] = hotstuffpb.BlockToProto(reply)
		if pb, done := network.VerifRequestBlockQF(in, replies); done {
			return hotstuffpb.BlockFromProto(pb), true
		}
	}
	return nil, false
}

// viaServer applies what server.serviceImpl does with the transport identity: the
// sender id fields are overwritten with the true sender and a proposed block is
// re-created with the sender as proposer (so nobody can speak for another id).
func viaServer(from hotstuff.ID, msg any) any {
	switch m := msg.(type) {
	case hotstuff.ProposeMsg:
		m.ID = from
		if m.Block != nil && m.Block.Proposer() != from {
			pb := hotstuffpb.BlockToProto(m.Block)
			pb.Proposer = uint32(from)
			m.Block = hotstuffpb.BlockFromProto(pb)
		}
		return m
	case hotstuff.VoteMsg:
		m.ID = from
		return m
	case hotstuff.NewViewMsg:
		m.ID = from
		m.FromNetwork = true
		return m
	case hotstuff.TimeoutMsg:
		m.ID = from
		return m
	}
	return msg
}

// deliver hands a pending message to its target and drains the target.
func (c *Cluster) deliver(p Pending) {
	from, to := c.Actors[p.From], c.Actors[p.To]
	msg := viaServer(from.ID, p.Msg)
	kind, view := msgKind(msg)
	c.trace(TraceEntry{Kind: "deliver", From: from.Name(), To: to.Name(), What: kind, View: view})
	c.Delivered++
	if pm, ok := msg.(hotstuff.ProposeMsg); ok && pm.Block != nil {
		if c.W.Blocks.Add(pm.Block) {
			c.Mon.onBlockSeen(pm.Block)
		}
	}
	if to.Node == nil {
		if to.Byz != nil {
			to.Byz.observe(msg)
		}
		return
	}
	c.cmd.ensure(to)
	c.Mon.beforeHandle(to, msg)
	pan, site := to.Node.Deliver(msg, 10000)
	if pan != nil {
		c.Panic, c.PanicAt = pan, fmt.Sprintf("%s while %s handled %s from %s", site, to.Name(), kind, from.Name())
	}
	c.Mon.afterHandle(to)
}

// deliverable returns the indices of pool entries that can be delivered now.
func (c *Cluster) deliverable() []int {
	var idx []int
	for i, p := range c.Pool {
		to, from := c.Actors[p.To], c.Actors[p.From]
		if to.Crashed {
			continue
		}
		if !c.linkOpen(from, to) {
			continue
		}
		idx = append(idx, i)
	}
	return idx
}

func (c *Cluster) removePool(i int) Pending {
	p := c.Pool[i]
	c.Pool = append(c.Pool[:i], c.Pool[i+1:]...)
	return p
}

// purge drops messages to crashed actors.
func (c *Cluster) purge() {
	out := c.Pool[:0]
	for _, p := range c.Pool {
		if !c.Actors[p.To].Crashed {
			out = append(out, p)
		}
	}
	c.Pool = out
}

// ---------------------------------------------------------------- steps

// Start starts every stack (the leader of view 1 proposes).
func (c *Cluster) Start() {
	c.cmd.topUp()
	for _, a := range c.Actors {
		if a.Node == nil {
			continue
		}
		func() {
			defer func() {
				if e := recover(); e != nil {
					c.Panic, c.PanicAt = e, vk.StackSite()+" in Start"
				}
			}()
			a.Node.Start()
			a.Node.Drain(10000)
		}()
		c.Mon.afterHandle(a)
	}
}

// LocalTimeout fires actor a's view timer (virtual time: a timer may fire at any moment).
func (c *Cluster) LocalTimeout(a *Actor) {
	if a.Node == nil || a.Crashed {
		return
	}
	// the event carries the view the pending timer was started for - normally the current view
	v := a.Node.TimerView()
	if v != a.Node.VS.View() {
		c.Mon.Obs["timers_carrying_a_stale_view"]++
	}
	c.trace(TraceEntry{Kind: "timeout", To: a.Name(), View: uint64(v)})
	c.Timeouts++
	c.cmd.ensure(a)
	c.Mon.beforeHandle(a, hotstuff.TimeoutEvent{View: v})
	pan, site := a.Node.Deliver(hotstuff.TimeoutEvent{View: v}, 10000)
	if pan != nil {
		c.Panic, c.PanicAt = pan, fmt.Sprintf("%s while %s handled a local timeout", site, a.Name())
	}
	c.Mon.afterHandle(a)
}

// SetPartition assigns groups; messages flow only inside a group.
func (c *Cluster) SetPartition(groups []int) {
	for i, a := range c.Actors {
		a.Group = groups[i]
	}
	c.PartChanges++
	c.trace(TraceEntry{Kind: "partition", What: fmt.Sprint(groups)})
}

// Heal puts everybody into one group.
func (c *Cluster) Heal() {
	for _, a := range c.Actors {
		a.Group = 0
	}
	c.trace(TraceEntry{Kind: "heal"})
}

// Crash stops an actor for good.
func (c *Cluster) Crash(a *Actor) {
	a.Crashed = true
	c.Crashes++
	c.purge()
	c.trace(TraceEntry{Kind: "crash", To: a.Name()})
}

// faulty counts replica ids that are not honest.
func (c *Cluster) faultyIDs() map[hotstuff.ID]bool {
	f := map[hotstuff.ID]bool{}
	for _, a := range c.Actors {
		if a.Kind != Honest || a.Crashed {
			f[a.ID] = true
		}
	}
	return f
}

// ---------------------------------------------------------------- commands

// cmdKey identifies a command by the two numbers the client chose. The harness keeps its own key type: the
// repository's MessageID is part of what is under test.
type cmdKey struct {
	ClientID       uint32
	SequenceNumber uint64
}

func keyOf(cmd *clientpb.Command) cmdKey {
	return cmdKey{ClientID: cmd.GetClientID(), SequenceNumber: cmd.GetSequenceNumber()}
}

type cmdFeed struct {
	c       *Cluster
	next    map[int]map[uint32]uint64 // actor idx -> client -> next seq to offer
	clients uint32
	// client mode
	mu         sync.Mutex
	outcomes   []Outcome
	waiting    map[int]map[cmdKey]bool
	issued     map[int][]*clientpb.Command
	recorded   atomic.Int64
	closed     bool
	submitted  map[int]int
	recordedBy map[int]int
	retry      []retryItem
	done       map[int]map[cmdKey]bool
	retrying   bool
	retried    map[int]map[cmdKey]int
}

type retryItem struct {
	actor int
	cmd   *clientpb.Command
}

// Outcome is what a client got back from one replica for one command.
type Outcome struct {
	Actor   int
	ID      cmdKey
	Err     error
	AtStep  int
	Ordinal int64
}

func newCmdFeed(c *Cluster) *cmdFeed {
	f := &cmdFeed{c: c, next: map[int]map[uint32]uint64{}, clients: 3, waiting: map[int]map[cmdKey]bool{}, issued: map[int][]*clientpb.Command{},
		submitted: map[int]int{}, recordedBy: map[int]int{}, retried: map[int]map[cmdKey]int{}, done: map[int]map[cmdKey]bool{}}
	for _, a := range c.Actors {
		f.next[a.Idx] = map[uint32]uint64{}
		if c.Cfg.WideSeq {
			f.next[a.Idx][1], f.next[a.Idx][2] = 2<<32, 1<<32
		}
		f.waiting[a.Idx] = map[cmdKey]bool{}
	}
	return f
}

// CmdData is the unique payload of a command.
func CmdData(client uint32, seq uint64) []byte { return []byte(fmt.Sprintf("cmd-%d-%d;", client, seq)) }

func mkServerCtx() gorums.ServerCtx {
	ctx := gorums.ServerCtx{Context: context.Background()}
	v := reflect.ValueOf(&ctx).Elem()
	mu := &sync.Mutex{}
	mu.Lock()
	once := &sync.Once{}
	fo := v.FieldByName("once")
	fm := v.FieldByName("mut")
	if fo.IsValid() && fm.IsValid() {
		*(**sync.Once)(unsafe.Pointer(fo.UnsafeAddr())) = once
		*(**sync.Mutex)(unsafe.Pointer(fm.UnsafeAddr())) = mu
	}
	return ctx
}

// submit sends a command to an actor's replica as a client would.
func (f *cmdFeed) submit(a *Actor, cmd *clientpb.Command) {
	if !f.c.Cfg.Clients || a.CIO == nil {
		a.Node.Cmds.Add(cmd)
		return
	}
	id := keyOf(cmd)
	f.mu.Lock()
	if f.waiting[a.Idx][id] || (f.done[a.Idx][id] && !f.retrying) {
		f.mu.Unlock()
		return
	}
	f.waiting[a.Idx][id] = true
	f.issued[a.Idx] = append(f.issued[a.Idx], cmd)
	f.submitted[a.Idx]++
	f.mu.Unlock()
	go func() {
		_, err := a.CIO.ExecCommand(mkServerCtx(), cmd)
		f.mu.Lock()
		if !f.closed {
			f.outcomes = append(f.outcomes, Outcome{Actor: a.Idx, ID: id, Err: err, Ordinal: f.recorded.Load()})
			// an aborted command is offered again once, as the real client's retry would
			if err != nil && strings.Contains(err.Error(), "forked") {
				if f.retried[a.Idx] == nil {
					f.retried[a.Idx] = map[cmdKey]int{}
				}
				if f.retried[a.Idx][id] < 1 {
					f.retried[a.Idx][id]++
					f.retry = append(f.retry, retryItem{a.Idx, cmd})
				}
			}
		}
		delete(f.waiting[a.Idx], id)
		if f.done[a.Idx] == nil {
			f.done[a.Idx] = map[cmdKey]bool{}
		}
		f.done[a.Idx][id] = true
		f.recordedBy[a.Idx]++
		f.mu.Unlock()
		f.recorded.Add(1)
	}()
}

// topUp makes sure that every stack holds enough fresh commands for CommandCache.Get
// never to block the single simulator thread ("provided client commands are available").
// All replicas are offered the same global command stream, each in ascending order per client.
func (f *cmdFeed) topUp() {
	f.mu.Lock()
	retry := f.retry
	f.retry = nil
	f.mu.Unlock()
	f.retrying = true
	for _, it := range retry {
		a := f.c.Actors[it.actor]
		if a.Node != nil && !a.Crashed {
			f.submit(a, it.cmd)
		}
	}
	f.retrying = false
	// Liveness reserve: every replica also has a private client whose commands no other replica receives, so
	// that other leaders' proposals (which advance the shared clients' proposed markers) can never make all of
	// a replica's cached commands stale at once. The shared clients 1..3 provide the overlapping command sets.
	for _, a := range f.c.Actors {
		f.fill(a)
	}
}

// ensure refills one replica's reserve if it has run low: a replica that leads many views in a row can propose more
// often between two top-ups than the reserve lasts (a backlog of timeout certificates delivered in one round), and a
// Get that blocks would stop the single simulator thread.
func (f *cmdFeed) ensure(a *Actor) {
	if a.Node == nil || a.Crashed {
		return
	}
	fresh, token, _, by, ok := vk.CmdCacheFreshBy(a.Node.Cmds)
	if ok && !token && fresh >= int(max(f.c.Cfg.BatchSize, 1)) && !f.c.Cfg.Clients {
		// no client goroutine is running (commands are added by this thread): a full batch of fresh commands without a
		// pending wake-up means the replica's next Get would park although commands are available
		f.c.CachedBatchWithoutWakeup++
		if f.c.OnCachedBatchWithoutWakeup != nil {
			f.c.OnCachedBatchWithoutWakeup(a, fresh)
		}
	}
	if ok && (by[uint32(1000+a.Idx)] < 3*int(max(f.c.Cfg.BatchSize, 1)) || !token) {
		f.fill(a)
	}
}

func (f *cmdFeed) fill(a *Actor) {
	want := 8 * int(max(f.c.Cfg.BatchSize, 1))
	{
		if a.Node == nil || a.Crashed {
			return
		}
		private := uint32(1000 + a.Idx)
		for tries := 0; tries < 400; tries++ {
			fresh, token, markers, by, ok := vk.CmdCacheFreshBy(a.Node.Cmds)
			if !ok {
				f.c.R.Inconclusive("CommandCache internals not readable: cannot guarantee command availability in the single-threaded simulator")
				return
			}
			if by[private] >= want && token {
				break
			}
			client := private
			if by[private] >= want/2 && f.c.Rng.Chance(2, 3) {
				client = uint32(1 + f.c.Rng.Intn(int(f.clients)))
			}
			seq := f.next[a.Idx][client]
			if seq < markers[client] {
				seq = markers[client]
			}
			seq++
			f.next[a.Idx][client] = seq
			cmd := &clientpb.Command{ClientID: client, SequenceNumber: seq, Data: CmdData(client, seq)}
			f.submit(a, cmd)
			if f.c.Cfg.Clients {
				// wait until the client goroutine has handed the command to the cache
				deadline := time.Now().Add(5 * time.Second)
				for {
					fr, _, _, _ := vk.CmdCacheFresh(a.Node.Cmds)
					if fr > fresh || time.Now().After(deadline) {
						break
					}
					time.Sleep(10 * time.Microsecond)
				}
			}
		}
	}
}

func (f *cmdFeed) close() {
	f.mu.Lock()
	f.closed = true
	f.mu.Unlock()
	if !f.c.Cfg.Clients {
		return
	}
	// release parked client goroutines
	for _, a := range f.c.Actors {
		if a.CIO == nil {
			continue
		}
		f.mu.Lock()
		cmds := append([]*clientpb.Command(nil), f.issued[a.Idx]...)
		f.mu.Unlock()
		if len(cmds) > 0 {
			a.CIO.Abort(&clientpb.Batch{Commands: cmds})
		}
	}
}

var _ = eventloop.New
