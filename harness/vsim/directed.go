package vsim

import (
	"fmt"
	"os"
	"sort"

	"github.com/relab/hotstuff"
	"github.com/relab/hotstuff/internal/proto/hotstuffpb"
	"github.com/relab/hotstuff/protocol/rules"
	"github.com/relab/hotstuff/security/crypto"
	"github.com/relab/hotstuff/verif/vbase"
	"github.com/relab/hotstuff/verif/vk"
)

// Directed scenarios: schedules that target one specific weakness each (grown mutation-guided: each
// one exposes a divergence on some rule-weakening mutant). They are plain schedules - on a correct
// tree they simply pass. They are always run first by the C01/C03 campaigns.

// DirectedNames lists the scenarios.
var DirectedNames = []string{"fork-below-commit", "fork-below-lock", "equivocate-split-votes", "hidden-qc-release", "forged-qc-chain", "stale-qc-replay"}

// lockstepHonest runs one lockstep round in which the scripted actor behaves like an honest leader.
func (c *Cluster) lockstepHonest(byz *Actor, proposed map[hotstuff.View]bool) {
	c.cmd.topUp()
	c.lockstepRound(nil)
	if byz != nil {
		v := byz.Byz.maxView
		if c.publicLeader(v) == byz.ID && !proposed[v] {
			proposed[v] = true
			hq := byz.Byz.highQC()
			b := hotstuff.NewBlock(hq.BlockHash(), hq, c.byzBatch(byz), v, byz.ID)
			c.registerByzBlock(byz, b)
			c.trace(TraceEntry{Kind: "byz", From: byz.Name(), What: "lead-honestly", View: uint64(v)})
			c.sendAll(byz, hotstuff.ProposeMsg{ID: byz.ID, Block: b})
		}
	}
	c.Step++
	c.Mon.afterStep()
}

func (c *Cluster) maxCommitted() (best *hotstuff.Block) {
	best = hotstuff.GetGenesis()
	for _, a := range c.Actors {
		if a.Judged() {
			if l := c.Mon.commits[a.Idx]; len(l) > 0 && l[len(l)-1].View() > best.View() {
				best = l[len(l)-1]
			}
		}
	}
	return best
}

// nextLedView returns the first view >= v led by id.
func (c *Cluster) nextLedView(id hotstuff.ID, v hotstuff.View) hotstuff.View {
	for d := hotstuff.View(0); d < 64; d++ {
		if c.publicLeader(v+d) == id {
			return v + d
		}
	}
	return v
}

// RunDirected runs one directed scenario. variant selects a parameter (e.g. how far below to fork).
func RunDirected(name string, variant int, ruleset string, n int, scheme string, rng *vbase.Rng, r *vbase.Result, enable func(*Monitors)) *Cluster {
	cfg := Config{N: n, Ruleset: ruleset, Scheme: scheme, Cache: uint([]int{0, 100}[variant%2]), Leader: "round-robin", BatchSize: 1,
		Profile: "directed:" + name, Steps: 0, ByzRules: map[hotstuff.ID]string{}, Label: fmt.Sprintf("%s/%d", name, variant)}
	byzID := hotstuff.ID(n) // the last replica is the scripted Byzantine one
	cfg.Scripted = []hotstuff.ID{byzID}
	if name == "forged-qc-chain" && n >= 7 && variant >= 2 {
		cfg.Scripted = []hotstuff.ID{byzID - 1, byzID} // two colluding Byzantine replicas (f = 2): a silent accomplice lends its key
	}
	c, err := NewCluster(cfg, rng, r)
	if err != nil {
		r.Inconclusive("cannot build directed cluster: " + err.Error())
		return nil
	}
	enable(c.Mon)
	var byz, accomplice *Actor
	for _, a := range c.Actors {
		if a.Kind == Scripted {
			if a.ID == byzID {
				byz = a
			} else {
				accomplice = a
			}
		}
	}
	proposed := map[hotstuff.View]bool{}
	c.Start()
	c.Step = 1
	// phase 1: let the cluster commit a few blocks with the Byzantine replica leading honestly
	warm := 14 + 2*variant
	for i := 0; i < warm && c.Panic == nil && len(c.Mon.Viol) == 0; i++ {
		c.lockstepHonest(byz, proposed)
	}
	st := byz.Byz
	hq := st.highQC()
	pickOld := func(depth int) (hotstuff.QuorumCert, bool) {
		// the QC of the block `depth` levels below the highest committed block (0 = the committed block itself)
		blk := c.maxCommitted()
		for i := 0; i < depth; i++ {
			p, ok := c.W.Blocks.Get(blk.Parent())
			if !ok {
				break
			}
			blk = p
		}
		for _, qc := range st.qcs {
			if qc.BlockHash() == blk.Hash() {
				return qc, true
			}
		}
		if blk.Hash() == hotstuff.GetGenesis().Hash() {
			return hotstuff.NewQuorumCert(nil, 0, blk.Hash()), true
		}
		return hotstuff.QuorumCert{}, false
	}
	v := c.nextLedView(byz.ID, st.maxView)
	switch name {
	case "fork-below-commit":
		// propose, in a view the attacker leads, a block that forks off below an already committed block
		if old, ok := pickOld(1 + variant%3); ok {
			proposed[v] = true
			b := hotstuff.NewBlock(old.BlockHash(), old, c.byzBatch(byz), v, byz.ID)
			c.registerByzBlock(byz, b)
			c.trace(TraceEntry{Kind: "byz", From: byz.Name(), What: "fork-below-commit", View: uint64(v)})
			c.sendAll(byz, hotstuff.ProposeMsg{ID: byz.ID, Block: b})
		}
	case "fork-below-lock":
		// fork off the parent of the tip: below the lock but above the last commit
		tip, ok := c.W.Blocks.Get(hq.BlockHash())
		if ok {
			if par, ok := c.W.Blocks.Get(tip.Parent()); ok {
				proposed[v] = true
				b := hotstuff.NewBlock(par.Hash(), tip.QuorumCert(), c.byzBatch(byz), v, byz.ID)
				c.registerByzBlock(byz, b)
				c.trace(TraceEntry{Kind: "byz", From: byz.Name(), What: "fork-below-lock", View: uint64(v)})
				c.sendAll(byz, hotstuff.ProposeMsg{ID: byz.ID, Block: b})
			}
		}
	case "equivocate-split-votes":
		// two blocks for one view to disjoint halves, then each half's votes are completed with the attacker's own vote
		proposed[v] = true
		b1 := hotstuff.NewBlock(hq.BlockHash(), hq, c.byzBatch(byz), v, byz.ID)
		b2 := hotstuff.NewBlock(hq.BlockHash(), hq, c.byzBatch(byz), v, byz.ID)
		c.registerByzBlock(byz, b1)
		c.registerByzBlock(byz, b2)
		c.trace(TraceEntry{Kind: "byz", From: byz.Name(), What: "equivocate", View: uint64(v)})
		for i, o := range c.others(byz) {
			// everybody gets both, in opposite orders
			if i%2 == 0 {
				c.enqueue(byz, o, hotstuff.ProposeMsg{ID: byz.ID, Block: b1})
				c.enqueue(byz, o, hotstuff.ProposeMsg{ID: byz.ID, Block: b2})
			} else {
				c.enqueue(byz, o, hotstuff.ProposeMsg{ID: byz.ID, Block: b2})
				c.enqueue(byz, o, hotstuff.ProposeMsg{ID: byz.ID, Block: b1})
			}
		}
		for _, b := range []*hotstuff.Block{b1, b2} {
			if pc, err := byz.M.Auth.CreatePartialCert(b); err == nil {
				for _, o := range c.others(byz) {
					c.enqueue(byz, o, hotstuff.VoteMsg{ID: byz.ID, PartialCert: pc})
				}
			}
		}
	case "hidden-qc-release":
		// extend an older certified block with its genuine QC in a later view (tests the lock, not the certificate)
		if old, ok := pickOld(0); ok {
			proposed[v] = true
			b := hotstuff.NewBlock(old.BlockHash(), old, c.byzBatch(byz), v, byz.ID)
			c.registerByzBlock(byz, b)
			c.sendAll(byz, hotstuff.ProposeMsg{ID: byz.ID, Block: b})
			c.trace(TraceEntry{Kind: "byz", From: byz.Name(), What: "hidden-qc-release", View: uint64(v)})
		}
	case "forged-qc-chain":
		// certify own never-voted blocks with the own signature repeated q times and build a chain on them
		q := c.W.Q()
		parentQC := hq
		parentHash := hq.BlockHash()
		view := v
		for k := 0; k < 4; k++ {
			b := hotstuff.NewBlock(parentHash, parentQC, c.byzBatch(byz), view, byz.ID)
			c.registerByzBlock(byz, b)
			if k == 3 || c.publicLeader(view) == byz.ID {
				c.sendAll(byz, hotstuff.ProposeMsg{ID: byz.ID, Block: b})
			}
			sig := c.sigRepeated(byz, b.ToBytes(), q)
			if accomplice != nil {
				// the two colluders' genuine signatures listed alternately: q entries, two distinct signers, no adjacent repeat
				sa, ea := byz.M.Auth.Sign(b.ToBytes())
				sb, eb := accomplice.M.Auth.Sign(b.ToBytes())
				if ea == nil && eb == nil {
					var ids []hotstuff.ID
					var raws [][]byte
					for i := 0; i < q; i++ {
						if i%2 == 0 {
							ids, raws = append(ids, accomplice.ID), append(raws, sb.ToBytes())
						} else {
							ids, raws = append(ids, byz.ID), append(raws, sa.ToBytes())
						}
					}
					if il := c.sigInterleaved(ids, raws); il != nil {
						sig = il
					}
				}
			}
			if sig == nil {
				break
			}
			parentQC = hotstuff.NewQuorumCert(sig, b.View(), b.Hash())
			parentHash = b.Hash()
			for _, o := range c.others(byz) {
				c.enqueue(byz, o, hotstuff.NewViewMsg{ID: byz.ID, SyncInfo: hotstuff.NewSyncInfoWith(parentQC)})
			}
			view++
		}
		c.trace(TraceEntry{Kind: "byz", From: byz.Name(), What: "forged-qc-chain", View: uint64(v)})
	case "stale-qc-replay":
		for _, qc := range st.qcs {
			for _, o := range c.others(byz) {
				c.enqueue(byz, o, hotstuff.NewViewMsg{ID: byz.ID, SyncInfo: hotstuff.NewSyncInfoWith(qc)})
			}
		}
		c.trace(TraceEntry{Kind: "byz", From: byz.Name(), What: "stale-qc-replay"})
	}
	c.FaultSteps++
	c.ByzActs++
	// phase 2: everybody (including the attacker) continues honestly
	for i := 0; i < 16 && c.Panic == nil && len(c.Mon.Viol) == 0; i++ {
		c.lockstepHonest(byz, proposed)
	}
	c.Mon.atEnd()
	c.Close()
	return c
}

var _ = crypto.NameEDDSA

// ---------------------------------------------------------------- hidden-lock scenarios (scripted leaders)

// byzVotesFor lets the scripted actor vote like an honest replica for the given block (vote sent to everybody;
// only the next leader uses it).
func (c *Cluster) byzVotesFor(byz *Actor, b *hotstuff.Block, targets []*Actor) {
	pc, err := byz.M.Auth.CreatePartialCert(b)
	if err != nil {
		return
	}
	for _, o := range targets {
		c.enqueue(byz, o, hotstuff.VoteMsg{ID: byz.ID, PartialCert: pc})
	}
}

// byzQC assembles a QC for b from the votes the actor has received plus its own vote.
func (c *Cluster) byzQC(byz *Actor, b *hotstuff.Block) (hotstuff.QuorumCert, bool) {
	var pcs []hotstuff.PartialCert
	seen := map[hotstuff.ID]bool{}
	for _, v := range byz.Byz.votes {
		if v.BlockHash() == b.Hash() && !seen[v.Signer()] {
			seen[v.Signer()] = true
			pcs = append(pcs, v)
		}
	}
	if !seen[byz.ID] {
		if pc, err := byz.M.Auth.CreatePartialCert(b); err == nil {
			pcs = append(pcs, pc)
		}
	}
	if len(pcs) < c.W.Q() {
		return hotstuff.QuorumCert{}, false
	}
	qc, err := byz.M.Auth.CreateQuorumCert(b, pcs[:c.W.Q()])
	return qc, err == nil
}

// roundsUntil runs lock-step rounds (honest behaviour) until cond holds or max rounds passed.
func (c *Cluster) roundsUntil(max int, cond func() bool) bool {
	for i := 0; i < max && c.Panic == nil && len(c.Mon.Viol) == 0; i++ {
		if cond() {
			return true
		}
		c.cmd.topUp()
		c.lockstepRound(nil)
		c.Step++
		c.Mon.afterStep()
	}
	return cond()
}

// RunHiddenLock: n=4, replica 4 Byzantine and leader of three consecutive views. It certifies X(v1)<-Y(v2)
// secretly, lets a conflicting block W(v3) be certified, then extends Y in view 4 (block e, NOT consecutive
// with Y) and shows a child of e to a single victim only. With the published commit rule nothing is committed
// on the X branch; a rule that forgets that the top link of the three-chain must be consecutive commits X at the
// victim while the others later commit the W branch. variant 1 shifts the gap to the lower link.
func RunHiddenLock(variant int, ruleset, scheme string, rng *vbase.Rng, r *vbase.Result, enable func(*Monitors)) *Cluster {
	sched := []hotstuff.ID{1, 2, 4, 4, 4, 1, 2, 1, 2, 1, 2, 1, 2, 1, 2, 1, 2, 1, 2}
	if variant == 1 {
		sched = []hotstuff.ID{1, 4, 4, 4, 4, 1, 2, 1, 2, 1, 2, 1, 2, 1, 2, 1, 2, 1, 2}
	}
	cfg := Config{N: 4, Ruleset: ruleset, Scheme: scheme, Cache: 0, Leader: "script", Sched: sched, BatchSize: 1,
		Profile: "directed:hidden-lock", ByzRules: map[hotstuff.ID]string{}, Scripted: []hotstuff.ID{4}, Label: fmt.Sprintf("hidden-lock/%d", variant)}
	c, err := NewCluster(cfg, rng, r)
	if err != nil {
		r.Inconclusive("cannot build hidden-lock cluster: " + err.Error())
		return nil
	}
	enable(c.Mon)
	byz := c.Actors[3]
	H := c.Actors[:3]
	st := byz.Byz
	gen := hotstuff.GetGenesis()
	genQC := hotstuff.NewQuorumCert(nil, 0, gen.Hash())
	c.FaultSteps++
	find := func(view hotstuff.View, proposer hotstuff.ID) *hotstuff.Block {
		for _, b := range st.blocks {
			if b.View() == view && b.Proposer() == proposer {
				return b
			}
		}
		return nil
	}
	allInView := func(as []*Actor, v hotstuff.View) func() bool {
		return func() bool {
			for _, a := range as {
				if a.Node.VS.View() < v {
					return false
				}
			}
			return true
		}
	}
	propose := func(b *hotstuff.Block, to []*Actor) {
		c.registerByzBlock(byz, b)
		c.trace(TraceEntry{Kind: "byz", From: byz.Name(), What: "propose", View: uint64(b.View())})
		for _, o := range to {
			c.enqueue(byz, o, hotstuff.ProposeMsg{ID: byz.ID, Block: b})
		}
	}
	byzTimeout := func(v hotstuff.View, to []*Actor) {
		vs, _ := byz.M.Auth.Sign(v.ToBytes())
		tm := hotstuff.TimeoutMsg{ID: byz.ID, View: v, ViewSignature: vs, SyncInfo: hotstuff.NewSyncInfoWith(st.highQC())}
		for _, o := range to {
			c.enqueue(byz, o, tm)
		}
	}
	dbg := os.Getenv("VERIF_DEBUG_HL") != ""
	phase := func(name string) {
		if dbg {
			fmt.Fprintf(os.Stderr, "PHASE %s step=%d pool=%d byzvotes=%d blocks=%d:", name, c.Step, len(c.Pool), len(st.votes), len(st.blocks))
			for _, a := range H {
				fmt.Fprintf(os.Stderr, " %s[v=%d hqc=%d c=%d]", a.Name(), a.Node.VS.View(), a.Node.VS.HighQC().View(), len(c.Mon.commits[a.Idx]))
			}
			fmt.Fprintln(os.Stderr)
		}
	}
	if dbg {
		H[0].M.Logger.Keep = 60
	}
	done := func() *Cluster {
		phase("done")
		if dbg {
			for _, l := range H[0].M.Logger.Tail() {
				fmt.Fprintln(os.Stderr, "   ", l)
			}
		}
		c.Mon.atEnd()
		c.Close()
		return c
	}
	c.Start()
	c.Step = 1
	var X, Y *hotstuff.Block
	var qcY hotstuff.QuorumCert
	if variant == 0 {
		// views 1,2 honest: X by replica 1, Y by replica 2; votes for Y reach the Byzantine leader of view 3
		if !c.roundsUntil(12, func() bool {
			X, Y = find(1, 1), find(2, 2)
			if Y == nil {
				return false
			}
			_, ok := c.byzQC(byz, Y)
			return ok
		}) {
			return done()
		}
		qcY, _ = c.byzQC(byz, Y)
	} else {
		// view 1 honest (X); the Byzantine leader of view 2 keeps QC(X) and lets W be certified in view 2, then proposes Y in view 3
		if !c.roundsUntil(12, func() bool {
			X = find(1, 1)
			if X == nil {
				return false
			}
			_, ok := c.byzQC(byz, X)
			return ok
		}) {
			return done()
		}
	}
	_ = X
	phase("XY-certified")
	// W: conflicting block on genesis, in the first view the attacker leads
	wView := hotstuff.View(3)
	if variant == 1 {
		wView = 2
	}
	W := hotstuff.NewBlock(gen.Hash(), genQC, c.byzBatch(byz), wView, byz.ID)
	propose(W, H)
	if !c.roundsUntil(14, func() bool { _, ok := c.byzQC(byz, W); return ok }) {
		return done()
	}
	qcW, _ := c.byzQC(byz, W)
	phase("W-certified")
	victim := H[2]
	if variant == 1 {
		// replica 1 must not learn about the X branch beyond X: cut it off while Y and e are proposed
		groups := []int{1, 0, 0, 0}
		c.SetPartition(groups)
		qcX, _ := c.byzQC(byz, X)
		Y = hotstuff.NewBlock(X.Hash(), qcX, c.byzBatch(byz), 3, byz.ID)
		propose(Y, H[1:])
		byzTimeout(2, H[1:])
		if !c.roundsUntil(14, func() bool { _, ok := c.byzQC(byz, Y); return ok }) {
			return done()
		}
		qcY, _ = c.byzQC(byz, Y)
	}
	// e: extends Y in view 4
	e := hotstuff.NewBlock(Y.Hash(), qcY, c.byzBatch(byz), 4, byz.ID)
	eTargets := H
	if variant == 1 {
		eTargets = H[1:]
		byzTimeout(3, H[1:])
	}
	propose(e, eTargets)
	if !c.roundsUntil(16, func() bool { _, ok := c.byzQC(byz, e); return ok }) {
		return done()
	}
	qcE, _ := c.byzQC(byz, e)
	phase("e-certified")
	// g: child of e, shown to the victim only, in view 5
	g := hotstuff.NewBlock(e.Hash(), qcE, c.byzBatch(byz), 5, byz.ID)
	if variant == 1 {
		byzTimeout(4, H[1:])
	}
	propose(g, []*Actor{victim})
	c.roundsUntil(14, func() bool {
		_, ok := victim.M.Chain.LocalGet(g.Hash())
		return ok
	})
	phase("g-shown")
	// the other honest replicas learn QC(W); the victim is cut off
	c.SetPartition([]int{0, 0, 1, 0})
	for _, o := range H[:2] {
		c.enqueue(byz, o, hotstuff.NewViewMsg{ID: byz.ID, SyncInfo: hotstuff.NewSyncInfoWith(qcW)})
	}
	// from now on the attacker behaves like an honest voter and helps views time out
	voted := map[hotstuff.Hash]bool{}
	for i := 0; i < 40 && c.Panic == nil && len(c.Mon.Viol) == 0; i++ {
		c.cmd.topUp()
		c.lockstepRound(nil)
		c.Step++
		for _, b := range st.blocks {
			if b.View() >= 6 && !voted[b.Hash()] && b.Proposer() != byz.ID {
				voted[b.Hash()] = true
				c.byzVotesFor(byz, b, H[:2])
			}
		}
		// if nothing moves the attacker adds its timeout for the honest replicas' current view
		if len(c.deliverable()) == 0 {
			c.LocalTimeout(H[0])
			c.LocalTimeout(H[1])
			byzTimeout(H[0].Node.VS.View(), H[:2])
			if H[1].Node.VS.View() != H[0].Node.VS.View() {
				byzTimeout(H[1].Node.VS.View(), H[:2])
			}
		}
		c.Mon.afterStep()
		phase("tail")
		if len(c.Mon.commits[H[0].Idx]) > 0 && len(c.Mon.commits[H[1].Idx]) > 0 {
			break
		}
	}
	_ = allInView
	return done()
}

// RunSelectiveFetch: n=4, replica 4 Byzantine and leader of every view. Honest replica 2 is cut off from the
// other honest replicas and misses X@1 <- P@2 <- Q@3. The leader then shows R@4 (QC(Q)) to replicas 1 and 2 and
// answers replica 2's block requests for Q and P but not for X: replica 2 votes for R while it cannot resolve the
// third block of the chain. It must nevertheless be locked on P afterwards; if it is not, the leader gets a
// conflicting child C@6 of X certified by {4,2,3} after replica 1 has committed X,P.
func RunSelectiveFetch(ruleset, scheme string, rng *vbase.Rng, r *vbase.Result, enable func(*Monitors)) *Cluster {
	cfg := Config{N: 4, Ruleset: ruleset, Scheme: scheme, Cache: 0, Leader: "script", Sched: []hotstuff.ID{4}, BatchSize: 1,
		Profile: "directed:selective-fetch", ByzRules: map[hotstuff.ID]string{}, Scripted: []hotstuff.ID{4}, Label: "selective-fetch"}
	c, err := NewCluster(cfg, rng, r)
	if err != nil {
		r.Inconclusive("cannot build selective-fetch cluster: " + err.Error())
		return nil
	}
	enable(c.Mon)
	byz := c.Actors[3]
	H1, H2, H3 := c.Actors[0], c.Actors[1], c.Actors[2]
	st := byz.Byz
	gen := hotstuff.GetGenesis()
	c.FaultSteps++
	c.Cut = map[[2]int]bool{{H2.Idx, H1.Idx}: true, {H2.Idx, H3.Idx}: true}
	c.CutLoss = true
	dbg := os.Getenv("VERIF_DEBUG_HL") != ""
	phase := func(name string) {
		if dbg {
			fmt.Fprintf(os.Stderr, "PHASE %s:", name)
			for _, a := range c.Actors[:3] {
				fmt.Fprintf(os.Stderr, " %s[v=%d hqc=%d c=%d]", a.Name(), a.Node.VS.View(), a.Node.VS.HighQC().View(), len(c.Mon.commits[a.Idx]))
			}
			fmt.Fprintln(os.Stderr)
		}
	}
	done := func() *Cluster { phase("done"); c.Mon.atEnd(); c.Close(); return c }
	propose := func(b *hotstuff.Block, to ...*Actor) {
		c.registerByzBlock(byz, b)
		c.trace(TraceEntry{Kind: "byz", From: byz.Name(), What: "propose", View: uint64(b.View())})
		for _, o := range to {
			c.enqueue(byz, o, hotstuff.ProposeMsg{ID: byz.ID, Block: b})
		}
	}
	certified := func(b *hotstuff.Block) func() bool {
		return func() bool { _, ok := c.byzQC(byz, b); return ok }
	}
	c.Start()
	c.Step = 1
	// views 1..3: X <- P <- Q, shown to replicas 1 and 3 only
	parentQC := hotstuff.NewQuorumCert(nil, 0, gen.Hash())
	parent := gen
	var chain []*hotstuff.Block
	var qcs []hotstuff.QuorumCert
	for v := 1; v <= 3; v++ {
		b := hotstuff.NewBlock(parent.Hash(), parentQC, c.byzBatch(byz), hotstuff.View(v), byz.ID)
		propose(b, H1, H3)
		if !c.roundsUntil(10, certified(b)) {
			return done()
		}
		qc, _ := c.byzQC(byz, b)
		chain = append(chain, b)
		qcs = append(qcs, qc)
		parent, parentQC = b, qc
	}
	X, P, Q := chain[0], chain[1], chain[2]
	_ = P
	phase("XPQ")
	// view 4: R to replicas 1 and 2; replica 2 may fetch Q and P from the leader, but not X
	st.refuse[X.Hash()] = true
	R := hotstuff.NewBlock(Q.Hash(), qcs[2], c.byzBatch(byz), 4, byz.ID)
	propose(R, H1, H2)
	if !c.roundsUntil(10, certified(R)) {
		return done()
	}
	qcR, _ := c.byzQC(byz, R)
	phase("R")
	// view 5: S to replica 1 only: it commits X and P
	S := hotstuff.NewBlock(R.Hash(), qcR, c.byzBatch(byz), 5, byz.ID)
	propose(S, H1)
	c.roundsUntil(6, func() bool { return len(c.Mon.commits[H1.Idx]) >= 2 })
	phase("S")
	// everybody is brought to view 6: replica 3 learns QC(R), then view 5 times out (the leader contributes its timeout)
	delete(st.refuse, X.Hash())
	for _, o := range []*Actor{H2, H3} {
		c.enqueue(byz, o, hotstuff.NewViewMsg{ID: byz.ID, SyncInfo: hotstuff.NewSyncInfoWith(qcR)})
	}
	c.roundsUntil(4, func() bool { return H3.Node.VS.View() >= 5 && H2.Node.VS.View() >= 5 })
	c.Cut = nil // the partition heals: timeouts reach everybody
	for i := 0; i < 12 && (H1.Node.VS.View() < 6 || H2.Node.VS.View() < 6 || H3.Node.VS.View() < 6); i++ {
		for _, a := range []*Actor{H1, H2, H3} {
			if a.Node.VS.View() == 5 {
				c.LocalTimeout(a)
			}
		}
		vs, _ := byz.M.Auth.Sign(hotstuff.View(5).ToBytes())
		tm := hotstuff.TimeoutMsg{ID: byz.ID, View: 5, ViewSignature: vs, SyncInfo: hotstuff.NewSyncInfoWith(qcR)}
		for _, o := range []*Actor{H1, H2, H3} {
			c.enqueue(byz, o, tm)
		}
		c.cmd.topUp()
		c.lockstepRound(nil)
		c.Step++
		c.Mon.afterStep()
	}
	phase("view6")
	// view 6: C extends X with QC(X) - conflicts with P
	C := hotstuff.NewBlock(X.Hash(), qcs[0], c.byzBatch(byz), 6, byz.ID)
	propose(C, H1, H2, H3)
	if !c.roundsUntil(10, certified(C)) {
		return done() // on a correct tree replica 2 is locked on P: C gets only one honest vote
	}
	phase("C-certified")
	// views 7..10 on top of C
	parent, parentQC = C, hotstuff.QuorumCert{}
	parentQC, _ = c.byzQC(byz, C)
	for v := 7; v <= 10; v++ {
		b := hotstuff.NewBlock(parent.Hash(), parentQC, c.byzBatch(byz), hotstuff.View(v), byz.ID)
		propose(b, H1, H2, H3)
		if !c.roundsUntil(10, certified(b)) || len(c.Mon.Viol) > 0 {
			return done()
		}
		parentQC, _ = c.byzQC(byz, b)
		parent = b
	}
	return done()
}

// RunCatchupLostFetch: n=4, all honest, fixed leader 1. Replica 4 is cut off (messages lost) for 4..6 views,
// comes back and catches up through block requests; the reply to ONE of its requests, for a block below the one the
// commit rule selects and above its last committed block, is lost. The catch-up must not commit anything above the
// gap: the commit is retried as a whole with the next proposal.
func RunCatchupLostFetch(variant int, ruleset, scheme string, clients bool, rng *vbase.Rng, r *vbase.Result, enable func(*Monitors)) *Cluster {
	cfg := Config{N: 4, Ruleset: ruleset, Scheme: scheme, Cache: 0, Leader: "script", Sched: []hotstuff.ID{1}, BatchSize: 1, Clients: clients,
		Profile: "directed:catchup-lost-fetch", ByzRules: map[hotstuff.ID]string{}, Label: fmt.Sprintf("catchup-lost-fetch/%d", variant)}
	lagIdx := 3
	if variant >= 6 {
		// n=7: replicas 1..5 make progress, replica 6 is the one cut off, replica 7 is Byzantine: it takes no part in the
		// protocol, but it answers every block request, first, with a twin of the requested block
		cfg.N, cfg.Scripted, lagIdx = 7, []hotstuff.ID{7}, 5
		cfg.Profile = "directed:catchup-wrong-fetch"
		cfg.Label = fmt.Sprintf("catchup-wrong-fetch/%d", variant)
	}
	c, err := NewCluster(cfg, rng, r)
	if err != nil {
		r.Inconclusive("cannot build catchup-lost-fetch cluster: " + err.Error())
		return nil
	}
	enable(c.Mon)
	lag := c.Actors[lagIdx]
	lead := c.Actors[0]
	done := func() *Cluster { c.Mon.atEnd(); c.Close(); return c }
	c.Start()
	c.Step = 1
	c.roundsUntil(30, func() bool { return lag.Node.VS.View() >= 5 && len(c.Mon.commits[lag.Idx]) >= 1 })
	c.FaultSteps++
	c.Cut = map[[2]int]bool{}
	for i := range c.Actors {
		if i != lagIdx {
			c.Cut[[2]int{lagIdx, i}] = true
		}
	}
	c.CutLoss = true
	target := lead.Node.VS.View() + hotstuff.View(4+variant%3)
	c.roundsUntil(40, func() bool { return lead.Node.VS.View() >= target })
	c.Cut = nil
	c.CutLoss = false
	// the blocks replica 4 misses, lowest view first
	var missing []*hotstuff.Block
	for _, b := range c.W.Blocks.All() {
		if _, ok := lag.M.Chain.LocalGet(b.Hash()); !ok {
			missing = append(missing, b)
		}
	}
	sort.Slice(missing, func(i, j int) bool { return missing[i].View() < missing[j].View() })
	c.R.Obs("catchup_blocks_missed", int64(len(missing)))
	if k := variant / 3 % 2; len(missing) > k+3 && variant < 6 {
		c.FetchDeny = map[hotstuff.Hash]int{missing[k].Hash(): 1}
	} else if len(missing) > k+3 {
		c.FetchTwin = map[hotstuff.Hash]int{missing[k].Hash(): 1 + variant%2}
	}
	c.roundsUntil(12, func() bool { return false })
	c.R.Obs("catchup_fetch_replies_lost", int64(c.FetchLost))
	if variant >= 6 {
		c.R.Obs("catchup_fetch_replies_with_a_twin_block", int64(c.WrongFetchReplies))
	}
	return done()
}

// RunStaleLeader: n=4, round-robin, replica 4 Byzantine but voting and leading honestly at first. Honest replica 1
// is cut off after it voted, while views go on among {2,3,4}. When the others reach a view L led by the Byzantine
// replica, it brings replica 1 to view L with a genuine QC for view L-1 (replica 1 has neither voted nor timed out
// in the views it skipped) and then sends it a well-formed block for the OLDER view L-1 - certificate, parent and
// view order are all fine, but the designated leader of L-1 is somebody else. Replica 1 must not vote for it.
func RunStaleLeader(variant int, ruleset, scheme string, rng *vbase.Rng, r *vbase.Result, enable func(*Monitors)) *Cluster {
	cfg := Config{N: 4, Ruleset: ruleset, Scheme: scheme, Cache: uint([]int{0, 100}[variant%2]), Leader: "round-robin", BatchSize: 1,
		Profile: "directed:stale-leader", ByzRules: map[hotstuff.ID]string{}, Scripted: []hotstuff.ID{4}, Label: fmt.Sprintf("stale-leader/%d", variant)}
	c, err := NewCluster(cfg, rng, r)
	if err != nil {
		r.Inconclusive("cannot build stale-leader cluster: " + err.Error())
		return nil
	}
	enable(c.Mon)
	byz, R := c.Actors[3], c.Actors[0]
	st := byz.Byz
	done := func() *Cluster { c.Mon.atEnd(); c.Close(); return c }
	voted := map[hotstuff.Hash]bool{}
	proposed := map[hotstuff.View]bool{}
	silentFrom := hotstuff.View(1 << 60)
	byView := func(v hotstuff.View) *hotstuff.Block {
		for _, b := range st.blocks {
			if b.View() == v && c.publicLeader(v) == b.Proposer() {
				return b
			}
		}
		return nil
	}
	behave := func() {
		for _, b := range append([]*hotstuff.Block(nil), st.blocks...) {
			if voted[b.Hash()] || c.publicLeader(b.View()) != b.Proposer() {
				continue
			}
			voted[b.Hash()] = true
			pc, err := byz.M.Auth.CreatePartialCert(b)
			if err != nil {
				continue
			}
			next := c.publicLeader(b.View() + 1)
			if next == byz.ID {
				st.votes = append(st.votes, pc)
			} else {
				for _, o := range c.Actors {
					if o.ID == next {
						c.enqueue(byz, o, hotstuff.VoteMsg{ID: byz.ID, PartialCert: pc})
					}
				}
			}
		}
		for _, b := range append([]*hotstuff.Block(nil), st.blocks...) {
			v := b.View() + 1
			if c.publicLeader(v) != byz.ID || proposed[v] || v >= silentFrom || c.publicLeader(b.View()) != b.Proposer() {
				continue
			}
			if qc, ok := c.byzQC(byz, b); ok {
				proposed[v] = true
				nb := hotstuff.NewBlock(b.Hash(), qc, c.byzBatch(byz), v, byz.ID)
				c.registerByzBlock(byz, nb)
				st.blocks = append(st.blocks, nb)
				voted[nb.Hash()] = true
				c.trace(TraceEntry{Kind: "byz", From: byz.Name(), What: "lead-honestly", View: uint64(v)})
				c.sendAll(byz, hotstuff.ProposeMsg{ID: byz.ID, Block: nb})
				if pc, err := byz.M.Auth.CreatePartialCert(nb); err == nil {
					for _, o := range c.Actors {
						if o.ID == c.publicLeader(v+1) {
							c.enqueue(byz, o, hotstuff.VoteMsg{ID: byz.ID, PartialCert: pc})
						}
					}
				}
			}
		}
	}
	timedOut := map[hotstuff.View]bool{}
	round := func() {
		c.cmd.topUp()
		c.lockstepRound(nil)
		behave()
		// join the others' timeouts like an honest replica would
		for _, tm := range append([]hotstuff.TimeoutMsg(nil), st.timeouts...) {
			if timedOut[tm.View] || tm.ID == byz.ID {
				continue
			}
			timedOut[tm.View] = true
			vs, err := byz.M.Auth.Sign(tm.View.ToBytes())
			if err != nil {
				continue
			}
			own := hotstuff.TimeoutMsg{ID: byz.ID, View: tm.View, ViewSignature: vs, SyncInfo: hotstuff.NewSyncInfoWith(st.highQC())}
			if ruleset == rules.NameFastHotStuff {
				if ms, err := byz.M.Auth.Sign(own.ToBytes()); err == nil {
					own.MsgSignature = ms
				}
			}
			c.sendAll(byz, own)
		}
		c.Step++
		c.Mon.afterStep()
	}
	c.Start()
	c.Step = 1
	// phase A: everybody, until replica 1 is in a view > 3+variant/2 that neither it nor the Byzantine replica leads (nor the next one)
	warm := hotstuff.View(3 + variant/2)
	ready := func() bool {
		v := R.Node.VS.View()
		return v > warm && c.publicLeader(v) != R.ID && c.publicLeader(v+1) != R.ID && c.publicLeader(v) != byz.ID
	}
	for i := 0; i < 60 && !ready() && c.Panic == nil && len(c.Mon.Viol) == 0; i++ {
		round()
	}
	// phase B: replica 1 is cut off (loss); the others go on until the Byzantine replica holds the QC that starts a view L it leads
	c.FaultSteps++
	c.Cut = map[[2]int]bool{{0, 1}: true, {0, 2}: true, {0, 3}: true}
	c.CutLoss = true
	cutView := R.Node.VS.View()
	L := c.nextLedView(byz.ID, cutView+2)
	silentFrom = L
	var qcPrev hotstuff.QuorumCert
	have := false
	for i := 0; i < 60 && !have && c.Panic == nil && len(c.Mon.Viol) == 0; i++ {
		round()
		if b := byView(L - 1); b != nil {
			qcPrev, have = c.byzQC(byz, b)
		}
	}
	if !have {
		c.R.Obs("stale_leader_setup_failed", 1)
		return done()
	}
	// phase C: heal; replica 1 is brought to view L by the genuine QC of view L-1
	c.Cut = nil
	c.CutLoss = false
	c.enqueue(byz, R, hotstuff.NewViewMsg{ID: byz.ID, SyncInfo: hotstuff.NewSyncInfoWith(qcPrev)})
	for i := 0; i < 4 && R.Node.VS.View() < L; i++ {
		round()
	}
	c.R.Obs("stale_leader_target_view_gap", int64(R.Node.VS.View()-cutView))
	if R.Node.VS.View() != L {
		c.R.Obs("stale_leader_setup_failed", 1)
		return done()
	}
	// the stale proposal: view L-1-k (not led by the Byzantine replica), certificate and parent taken from the real chain
	pv := L - 1 - hotstuff.View(variant%2)
	if c.publicLeader(pv) == byz.ID {
		pv--
	}
	real := byView(pv)
	if real == nil {
		c.R.Obs("stale_leader_setup_failed", 1)
		return done()
	}
	stale := hotstuff.NewBlock(real.Parent(), real.QuorumCert(), c.byzBatch(byz), pv, byz.ID)
	c.registerByzBlock(byz, stale)
	c.trace(TraceEntry{Kind: "byz", From: byz.Name(), What: "stale-view-propose", View: uint64(pv)})
	c.sendAll(byz, hotstuff.ProposeMsg{ID: byz.ID, Block: stale})
	c.R.Obs("stale_leader_proposals_sent", 1)
	for i := 0; i < 3; i++ {
		round()
	}
	return done()
}

// RunForgedQCToNextLeader (Fast-HotStuff / aggregate timeout rule): every honest replica times out in its view v; the
// Byzantine replica, which receives the timeout messages like everybody else, assembles a genuine TC(v) from them and gets
// a new-view message {TC(v), forged QC for a block it fabricated, no aggregate QC} to the leader of view v+1 before that
// leader has seen the other timeouts. The leader may enter view v+1 on the TC, but it must not sign a proposal that
// carries the forged certificate.
func RunForgedQCToNextLeader(variant int, scheme string, rng *vbase.Rng, r *vbase.Result, enable func(*Monitors)) *Cluster {
	cfg := Config{N: 4, Ruleset: rules.NameFastHotStuff, Scheme: scheme, Cache: uint([]int{0, 100}[variant%2]), Leader: "round-robin", BatchSize: 1,
		Profile: "directed:forged-qc-to-next-leader", ByzRules: map[hotstuff.ID]string{}, Scripted: []hotstuff.ID{4}, Label: fmt.Sprintf("forged-qc-to-next-leader/%d", variant)}
	c, err := NewCluster(cfg, rng, r)
	if err != nil {
		r.Inconclusive("cannot build forged-qc-to-next-leader cluster: " + err.Error())
		return nil
	}
	enable(c.Mon)
	byz := c.Actors[3]
	st := byz.Byz
	done := func() *Cluster { c.Mon.atEnd(); c.Close(); return c }
	c.Start()
	c.Step = 1
	for round := 0; round < 3+variant/2 && c.Panic == nil; round++ {
		c.cmd.topUp()
		// views end by timeouts here; run a few rounds so that v is not always 1
		c.lockstepRound(nil)
		c.Step++
		c.Mon.afterStep()
	}
	// all honest replicas time out in their current view (the same one after the lock-step rounds)
	v := c.Actors[0].Node.VS.View()
	for _, a := range c.Actors[:3] {
		if a.Node.VS.View() != v {
			c.R.Obs("forged_qc_setup_failed", 1)
			return done()
		}
	}
	// the pending traffic of earlier rounds is delivered first; the view after v must be led by an honest replica
	c.lockstepRound(nil)
	v = c.Actors[0].Node.VS.View()
	for tries := 0; tries < 6 && c.publicLeader(v+1) == byz.ID; tries++ {
		c.cmd.topUp()
		c.lockstepRound(nil) // nothing pending => everybody times out and the view ends by a timeout certificate
		c.lockstepRound(nil)
		c.Step++
		v = c.Actors[0].Node.VS.View()
	}
	for _, a := range c.Actors[:3] {
		if a.Node.VS.View() != v {
			c.R.Obs("forged_qc_setup_failed", 1)
			return done()
		}
	}
	if c.publicLeader(v+1) == byz.ID {
		c.R.Obs("forged_qc_setup_failed", 1)
		return done()
	}
	for _, a := range c.Actors[:3] {
		if a.Node.VS.View() == v {
			c.LocalTimeout(a)
		}
	}
	c.FaultSteps++
	// only the Byzantine replica's copies of the timeout messages arrive for now
	for i := 0; i < len(c.Pool); {
		if c.Pool[i].To == byz.Idx {
			c.deliver(c.removePool(i))
		} else {
			i++
		}
	}
	byID := map[hotstuff.ID]hotstuff.TimeoutMsg{}
	for _, t := range st.timeouts {
		if t.View == v {
			byID[t.ID] = t
		}
	}
	vs, _ := byz.M.Auth.Sign(v.ToBytes())
	own := hotstuff.TimeoutMsg{ID: byz.ID, View: v, ViewSignature: vs, SyncInfo: hotstuff.NewSyncInfoWith(st.highQC())}
	if ms, err := byz.M.Auth.Sign(own.ToBytes()); err == nil {
		own.MsgSignature = ms
	}
	byID[byz.ID] = own
	var tms []hotstuff.TimeoutMsg
	for _, t := range byID {
		tms = append(tms, t)
	}
	if len(tms) < c.W.Q() {
		c.R.Obs("forged_qc_setup_failed", 1)
		return done()
	}
	tc, err := byz.M.Auth.CreateTimeoutCert(v, tms)
	if err != nil {
		c.R.Obs("forged_qc_setup_failed", 1)
		return done()
	}
	// the forged certificate: a fabricated block "certified" by the Byzantine replica alone (or by its signature repeated)
	hq := st.highQC()
	fab := hotstuff.NewBlock(hq.BlockHash(), hq, c.byzBatch(byz), v, byz.ID)
	c.registerByzBlock(byz, fab)
	var fsig hotstuff.QuorumSignature
	if variant%2 == 0 {
		fsig, _ = byz.M.Auth.Sign(fab.ToBytes())
	} else {
		fsig = c.sigRepeated(byz, fab.ToBytes(), c.W.Q())
	}
	if fsig == nil {
		c.R.Obs("forged_qc_setup_failed", 1)
		return done()
	}
	si := hotstuff.NewSyncInfoWith(tc)
	si.SetQC(hotstuff.NewQuorumCert(fsig, fab.View(), fab.Hash()))
	leader := c.publicLeader(v + 1)
	c.trace(TraceEntry{Kind: "byz", From: byz.Name(), What: "tc-plus-forged-qc-to-next-leader", View: uint64(v)})
	for _, o := range c.Actors[:3] {
		if o.ID == leader {
			c.deliver(Pending{From: byz.Idx, To: o.Idx, Msg: hotstuff.NewViewMsg{ID: byz.ID, SyncInfo: si}})
			c.R.Obs("forged_qc_newviews_delivered", 1)
			if o.Node.VS.View() > v {
				c.R.Obs("forged_qc_leader_entered_next_view_on_the_tc", 1)
			}
		}
	}
	for round := 0; round < 4 && c.Panic == nil; round++ {
		c.cmd.topUp()
		c.lockstepRound(nil)
		c.Step++
		c.Mon.afterStep()
	}
	return done()
}

// RunPrivateBranch: n=7, replicas 6 and 7 Byzantine, replica 6 leader of every view, honest replica 5 cut off from the
// honest replicas 1..4. After a common first block the leader equivocates in every view: the public block R_k (certified
// genuinely by 1..4 and the two Byzantine replicas) goes to 1..4, the private block Z_k goes to replica 5 only. The private
// chain has one honest vote per block, so every QC on it is FORGED - by whichever trick the variant names. If replica 5
// accepts the forged certificates it commits Z_2 while 1..4 commit R_2. Any hole in certificate validation that lets a
// coalition of f replicas pass a certificate without a quorum shows up here as a ledger divergence.
func RunPrivateBranch(variant int, ruleset string, rng *vbase.Rng, r *vbase.Result, enable func(*Monitors)) *Cluster {
	kinds := []string{"interleaved-two-signers", "repeated-signer", "rogue-key", "recut-cached-vote", "sub-quorum", "unsigned-view-zero"}
	kind := kinds[variant%len(kinds)]
	scheme := "eddsa"
	if variant/len(kinds)%2 == 1 {
		scheme = "ecdsa"
	}
	cache := uint(0)
	if kind == "recut-cached-vote" || variant%2 == 1 {
		cache = 100
	}
	if kind == "rogue-key" {
		scheme = "bls12"
	}
	cfg := Config{N: 7, Ruleset: ruleset, Scheme: scheme, Cache: cache, Leader: "script", Sched: []hotstuff.ID{6}, BatchSize: 1,
		Profile: "directed:private-branch", ByzRules: map[hotstuff.ID]string{}, Scripted: []hotstuff.ID{6, 7}, RogueKey: kind == "rogue-key",
		Label: "private-branch/" + kind}
	c, err := NewCluster(cfg, rng, r)
	if err != nil {
		r.Inconclusive("cannot build private-branch cluster: " + err.Error())
		return nil
	}
	enable(c.Mon)
	byz, acc, victim := c.Actors[5], c.Actors[6], c.Actors[4]
	public := c.Actors[:4]
	st := byz.Byz
	done := func() *Cluster { c.Mon.atEnd(); c.Close(); return c }
	c.FaultSteps++
	c.Cut = map[[2]int]bool{}
	for _, h := range public {
		c.Cut[[2]int{victim.Idx, h.Idx}] = true
	}
	c.CutLoss = true
	q := c.W.Q()
	propose := func(b *hotstuff.Block, to ...*Actor) {
		c.registerByzBlock(byz, b)
		c.trace(TraceEntry{Kind: "byz", From: byz.Name(), What: "propose", View: uint64(b.View())})
		for _, o := range to {
			c.enqueue(byz, o, hotstuff.ProposeMsg{ID: byz.ID, Block: b})
		}
	}
	// the accomplice votes for whatever the leader proposes publicly
	genuineQC := func(b *hotstuff.Block) (hotstuff.QuorumCert, bool) {
		if pc, err := acc.M.Auth.CreatePartialCert(b); err == nil {
			dup := false
			for _, v := range st.votes {
				if v.BlockHash() == b.Hash() && v.Signer() == acc.ID {
					dup = true
				}
			}
			if !dup {
				st.votes = append(st.votes, pc)
			}
		}
		return c.byzQC(byz, b)
	}
	forge := func(b *hotstuff.Block) hotstuff.QuorumSignature {
		msg := b.ToBytes()
		sa, ea := byz.M.Auth.Sign(msg)
		sb, eb := acc.M.Auth.Sign(msg)
		if ea != nil || eb != nil {
			return nil
		}
		switch kind {
		case "interleaved-two-signers":
			var ids []hotstuff.ID
			var raws [][]byte
			for i := 0; i < q; i++ {
				if i%2 == 0 {
					ids, raws = append(ids, acc.ID), append(raws, sb.ToBytes())
				} else {
					ids, raws = append(ids, byz.ID), append(raws, sa.ToBytes())
				}
			}
			return c.sigInterleaved(ids, raws)
		case "repeated-signer":
			return c.sigRepeated(byz, msg, q)
		case "rogue-key":
			if st.rogue == nil {
				return nil
			}
			return st.rogue.Forge(msg)
		case "recut-cached-vote":
			// the victim's own vote for b (cached at the victim when it signed) re-cut into q entries: first signer kept, the
			// other "signer ids" carved out of the signature's first bytes
			var x []byte
			for _, v := range st.votes {
				if v.BlockHash() == b.Hash() && v.Signer() == victim.ID {
					x = v.Signature().ToBytes()
				}
			}
			if len(x) < 4*(q-1)+q {
				return nil
			}
			ids := []hotstuff.ID{victim.ID}
			rest := x[4*(q-1):]
			chunk := len(rest) / q
			raws := [][]byte{rest[:chunk]}
			for k := 0; k < q-1; k++ {
				ids = append(ids, hotstuff.ID(uint32(x[4*k])|uint32(x[4*k+1])<<8|uint32(x[4*k+2])<<16|uint32(x[4*k+3])<<24))
				end := chunk * (k + 2)
				if k == q-2 {
					end = len(rest)
				}
				raws = append(raws, rest[chunk*(k+1):end])
			}
			return c.sigInterleaved(ids, raws)
		default: // sub-quorum: the three genuine signatures there are (victim's vote, if seen, and the two Byzantine ones)
			ids := []hotstuff.ID{byz.ID, acc.ID}
			raws := [][]byte{sa.ToBytes(), sb.ToBytes()}
			for _, v := range st.votes {
				if v.BlockHash() == b.Hash() && v.Signer() == victim.ID {
					ids, raws = append(ids, victim.ID), append(raws, v.Signature().ToBytes())
				}
			}
			if scheme == "bls12" {
				return nil
			}
			return c.sigInterleaved(ids, raws)
		}
	}
	c.Start()
	c.Step = 1
	gen := hotstuff.GetGenesis()
	X := hotstuff.NewBlock(gen.Hash(), hotstuff.NewQuorumCert(nil, 0, gen.Hash()), c.byzBatch(byz), 1, byz.ID)
	propose(X, append(append([]*Actor{}, public...), victim)...)
	var qcX hotstuff.QuorumCert
	if !c.roundsUntil(10, func() bool { var ok bool; qcX, ok = genuineQC(X); return ok }) {
		c.R.Obs("private_branch_setup_failed", 1)
		return done()
	}
	parentR, qcR := X, qcX
	parentZ := X
	qcZ := qcX
	for v := hotstuff.View(2); v <= 7 && c.Panic == nil && len(c.Mon.Viol) == 0; v++ {
		R := hotstuff.NewBlock(parentR.Hash(), qcR, c.byzBatch(byz), v, byz.ID)
		Z := hotstuff.NewBlock(parentZ.Hash(), qcZ, c.byzBatch(byz), v, byz.ID)
		if kind == "unsigned-view-zero" {
			// the victim sees nothing of views 2..4; in view 5 it is brought up to date with the genuine QC of the public block
			// of view 4 and then shown ONE block whose ancestors Y2<-Y3<-Y4 (on top of X) nobody ever voted for: each is
			// "certified" by a signature-free certificate labelled view 0, like the genesis certificate, and served on request
			propose(R, public...)
			var ok bool
			if !c.roundsUntil(10, func() bool { qcR, ok = genuineQC(R); return ok }) {
				c.R.Obs("private_branch_setup_failed", 1)
				return done()
			}
			parentR = R
			if v < 5 {
				continue
			}
			c.enqueue(byz, victim, hotstuff.NewViewMsg{ID: byz.ID, SyncInfo: hotstuff.NewSyncInfoWith(qcR)})
			c.roundsUntil(4, func() bool { return victim.Node.VS.View() >= 6 })
			py, pqc := X, qcX
			for yv := hotstuff.View(3); yv <= 5; yv++ {
				Y := hotstuff.NewBlock(py.Hash(), pqc, c.byzBatch(byz), yv, byz.ID)
				c.registerByzBlock(byz, Y)
				py, pqc = Y, hotstuff.NewQuorumCert(nil, 0, Y.Hash())
			}
			Z6 := hotstuff.NewBlock(py.Hash(), pqc, c.byzBatch(byz), 6, byz.ID)
			propose(Z6, victim)
			c.R.Obs("private_branch_forged_qcs_presented", 1)
			c.roundsUntil(4, func() bool { return false })
			break
		}
		propose(R, public...)
		propose(Z, victim)
		var ok bool
		if !c.roundsUntil(10, func() bool { qcR, ok = genuineQC(R); return ok }) {
			c.R.Obs("private_branch_setup_failed", 1)
			return done()
		}
		parentR = R
		if kind == "unsigned-view-zero" {
			// no signature at all, labelled with view 0 like the genesis certificate
			qcZ = hotstuff.NewQuorumCert(nil, 0, Z.Hash())
		} else {
			fs := forge(Z)
			if fs == nil {
				c.R.Obs("private_branch_forgery_not_applicable", 1)
				return done()
			}
			qcZ = hotstuff.NewQuorumCert(fs, Z.View(), Z.Hash())
		}
		parentZ = Z
		c.R.Obs("private_branch_forged_qcs_presented", 1)
	}
	c.R.Obs("private_branch_victim_commits", int64(len(c.Mon.commits[victim.Idx])))
	c.R.Obs("private_branch_public_commits", int64(len(c.Mon.commits[0])))
	return done()
}

// RunContentEquivocation: n=4, replica 4 Byzantine and leader of every view. In every view it sends replicas 1 and 2 a block
// with two commands and replica 3 a block that differs ONLY in how the same bytes are distributed over its commands (one
// command whose data embeds the second command's header). They are different blocks: replica 3's variant gets one vote,
// the other variant is certified and replica 3 obtains it through a block request. If the two variants were the same block
// for the hash / bytes-to-sign, the replicas would commit "the same chain" and execute different commands.
func RunContentEquivocation(variant int, ruleset string, rng *vbase.Rng, r *vbase.Result, enable func(*Monitors)) *Cluster {
	cfg := Config{N: 4, Ruleset: ruleset, Scheme: "eddsa", Cache: uint([]int{0, 100}[variant%2]), Leader: "script", Sched: []hotstuff.ID{4}, BatchSize: 1, Clients: true,
		Profile: "directed:content-equivocation", ByzRules: map[hotstuff.ID]string{}, Scripted: []hotstuff.ID{4}, Label: fmt.Sprintf("content-equivocation/%d", variant)}
	c, err := NewCluster(cfg, rng, r)
	if err != nil {
		r.Inconclusive("cannot build content-equivocation cluster: " + err.Error())
		return nil
	}
	enable(c.Mon)
	byz := c.Actors[3]
	st := byz.Byz
	done := func() *Cluster { c.Mon.atEnd(); c.Close(); return c }
	c.FaultSteps++
	c.Start()
	c.Step = 1
	gen := hotstuff.GetGenesis()
	parent, parentQC := gen, hotstuff.NewQuorumCert(nil, 0, gen.Hash())
	client := uint32(100 + byz.ID)
	for v := hotstuff.View(1); v <= 8 && c.Panic == nil && len(c.Mon.Viol) == 0; v++ {
		st.seq += 2
		two, merged, _ := vk.AmbiguousBatchTwins(client, st.seq-1, CmdData(client, st.seq-1), client, st.seq, CmdData(client, st.seq))
		tb := hotstuff.NewBlock(parent.Hash(), parentQC, two, v, byz.ID)
		tpb := hotstuffpb.BlockToProto(tb)
		tpb.Commands = merged[(variant/2+int(v))%len(merged)]
		twin := hotstuffpb.BlockFromProto(tpb)
		c.registerByzBlock(byz, tb)
		if twin.Hash() != tb.Hash() {
			c.registerByzBlock(byz, twin)
		}
		c.trace(TraceEntry{Kind: "byz", From: byz.Name(), What: "content-equivocate", View: uint64(v)})
		for i, o := range c.Actors[:3] {
			if i < 2 {
				c.enqueue(byz, o, hotstuff.ProposeMsg{ID: byz.ID, Block: tb})
			} else {
				c.enqueue(byz, o, hotstuff.ProposeMsg{ID: byz.ID, Block: twin})
			}
		}
		var qc hotstuff.QuorumCert
		ok := false
		if !c.roundsUntil(10, func() bool { qc, ok = c.byzQC(byz, tb); return ok }) {
			c.R.Obs("content_equivocation_setup_failed", 1)
			return done()
		}
		parent, parentQC = tb, qc
		c.R.Obs("content_equivocations", 1)
	}
	return done()
}
