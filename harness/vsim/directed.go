package vsim

import (
	"fmt"

	"github.com/relab/hotstuff"
	"github.com/relab/hotstuff/security/crypto"
	"github.com/relab/hotstuff/verif/vbase"
)

// Directed scenarios: schedules that target one specific weakness each (grown mutation-guided: each
// one exposes a divergence on some rule-weakening mutant). They are plain schedules - on a correct
// tree they simply pass. They are always run first by the C01/C03 campaigns.

// DirectedNames lists the scenarios.
var DirectedNames = []string{"fork-below-commit", "fork-below-lock", "equivocate-split-votes", "hidden-qc-release", "forged-qc-chain", "stale-qc-replay"}

// lockstepHonest runs one lockstep round in which the scripted actor behaves like an honest leader.
func (c *Cluster) lockstepHonest(byz *Actor, proposed map[hotstuff.View]bool) {
	c.cmd.topUp()
	c.lockstepRound(nil)
	if byz != nil {
		v := byz.Byz.maxView
		if c.publicLeader(v) == byz.ID && !proposed[v] {
			proposed[v] = true
			hq := byz.Byz.highQC()
			b := hotstuff.NewBlock(hq.BlockHash(), hq, c.byzBatch(byz), v, byz.ID)
			c.registerByzBlock(byz, b)
			c.trace(TraceEntry{Kind: "byz", From: byz.Name(), What: "lead-honestly", View: uint64(v)})
			c.sendAll(byz, hotstuff.ProposeMsg{ID: byz.ID, Block: b})
		}
	}
	c.Step++
	c.Mon.afterStep()
}

func (c *Cluster) maxCommitted() (best *hotstuff.Block) {
	best = hotstuff.GetGenesis()
	for _, a := range c.Actors {
		if a.Judged() {
			if l := c.Mon.commits[a.Idx]; len(l) > 0 && l[len(l)-1].View() > best.View() {
				best = l[len(l)-1]
			}
		}
	}
	return best
}

// nextLedView returns the first view >= v led by id.
func (c *Cluster) nextLedView(id hotstuff.ID, v hotstuff.View) hotstuff.View {
	for d := hotstuff.View(0); d < 64; d++ {
		if c.publicLeader(v+d) == id {
			return v + d
		}
	}
	return v
}

// RunDirected runs one directed scenario. variant selects a parameter (e.g. how far below to fork).
func RunDirected(name string, variant int, ruleset string, n int, scheme string, rng *vbase.Rng, r *vbase.Result, enable func(*Monitors)) *Cluster {
	cfg := Config{N: n, Ruleset: ruleset, Scheme: scheme, Cache: uint([]int{0, 100}[variant%2]), Leader: "round-robin", BatchSize: 1,
		Profile: "directed:" + name, Steps: 0, ByzRules: map[hotstuff.ID]string{}, Label: fmt.Sprintf("%s/%d", name, variant)}
	byzID := hotstuff.ID(n) // the last replica is the scripted Byzantine one
	cfg.Scripted = []hotstuff.ID{byzID}
	c, err := NewCluster(cfg, rng, r)
	if err != nil {
		r.Inconclusive("cannot build directed cluster: " + err.Error())
		return nil
	}
	enable(c.Mon)
	var byz *Actor
	for _, a := range c.Actors {
		if a.Kind == Scripted {
			byz = a
		}
	}
	proposed := map[hotstuff.View]bool{}
	c.Start()
	c.Step = 1
	// phase 1: let the cluster commit a few blocks with the Byzantine replica leading honestly
	warm := 14 + 2*variant
	for i := 0; i < warm && c.Panic == nil && len(c.Mon.Viol) == 0; i++ {
		c.lockstepHonest(byz, proposed)
	}
	st := byz.Byz
	hq := st.highQC()
	pickOld := func(depth int) (hotstuff.QuorumCert, bool) {
		// the QC of the block `depth` levels below the highest committed block (0 = the committed block itself)
		blk := c.maxCommitted()
		for i := 0; i < depth; i++ {
			p, ok := c.W.Blocks.Get(blk.Parent())
			if !ok {
				break
			}
			blk = p
		}
		for _, qc := range st.qcs {
			if qc.BlockHash() == blk.Hash() {
				return qc, true
			}
		}
		if blk.Hash() == hotstuff.GetGenesis().Hash() {
			return hotstuff.NewQuorumCert(nil, 0, blk.Hash()), true
		}
		return hotstuff.QuorumCert{}, false
	}
	v := c.nextLedView(byz.ID, st.maxView)
	switch name {
	case "fork-below-commit":
		// propose, in a view the attacker leads, a block that forks off below an already committed block
		if old, ok := pickOld(1 + variant%3); ok {
			proposed[v] = true
			b := hotstuff.NewBlock(old.BlockHash(), old, c.byzBatch(byz), v, byz.ID)
			c.registerByzBlock(byz, b)
			c.trace(TraceEntry{Kind: "byz", From: byz.Name(), What: "fork-below-commit", View: uint64(v)})
			c.sendAll(byz, hotstuff.ProposeMsg{ID: byz.ID, Block: b})
		}
	case "fork-below-lock":
		// fork off the parent of the tip: below the lock but above the last commit
		tip, ok := c.W.Blocks.Get(hq.BlockHash())
		if ok {
			if par, ok := c.W.Blocks.Get(tip.Parent()); ok {
				proposed[v] = true
				b := hotstuff.NewBlock(par.Hash(), tip.QuorumCert(), c.byzBatch(byz), v, byz.ID)
				c.registerByzBlock(byz, b)
				c.trace(TraceEntry{Kind: "byz", From: byz.Name(), What: "fork-below-lock", View: uint64(v)})
				c.sendAll(byz, hotstuff.ProposeMsg{ID: byz.ID, Block: b})
			}
		}
	case "equivocate-split-votes":
		// two blocks for one view to disjoint halves, then each half's votes are completed with the attacker's own vote
		proposed[v] = true
		b1 := hotstuff.NewBlock(hq.BlockHash(), hq, c.byzBatch(byz), v, byz.ID)
		b2 := hotstuff.NewBlock(hq.BlockHash(), hq, c.byzBatch(byz), v, byz.ID)
		c.registerByzBlock(byz, b1)
		c.registerByzBlock(byz, b2)
		c.trace(TraceEntry{Kind: "byz", From: byz.Name(), What: "equivocate", View: uint64(v)})
		for i, o := range c.others(byz) {
			// everybody gets both, in opposite orders
			if i%2 == 0 {
				c.enqueue(byz, o, hotstuff.ProposeMsg{ID: byz.ID, Block: b1})
				c.enqueue(byz, o, hotstuff.ProposeMsg{ID: byz.ID, Block: b2})
			} else {
				c.enqueue(byz, o, hotstuff.ProposeMsg{ID: byz.ID, Block: b2})
				c.enqueue(byz, o, hotstuff.ProposeMsg{ID: byz.ID, Block: b1})
			}
		}
		for _, b := range []*hotstuff.Block{b1, b2} {
			if pc, err := byz.M.Auth.CreatePartialCert(b); err == nil {
				for _, o := range c.others(byz) {
					c.enqueue(byz, o, hotstuff.VoteMsg{ID: byz.ID, PartialCert: pc})
				}
			}
		}
	case "hidden-qc-release":
		// extend an older certified block with its genuine QC in a later view (tests the lock, not the certificate)
		if old, ok := pickOld(0); ok {
			proposed[v] = true
			b := hotstuff.NewBlock(old.BlockHash(), old, c.byzBatch(byz), v, byz.ID)
			c.registerByzBlock(byz, b)
			c.sendAll(byz, hotstuff.ProposeMsg{ID: byz.ID, Block: b})
			c.trace(TraceEntry{Kind: "byz", From: byz.Name(), What: "hidden-qc-release", View: uint64(v)})
		}
	case "forged-qc-chain":
		// certify own never-voted blocks with the own signature repeated q times and build a chain on them
		q := c.W.Q()
		parentQC := hq
		parentHash := hq.BlockHash()
		view := v
		for k := 0; k < 4; k++ {
			b := hotstuff.NewBlock(parentHash, parentQC, c.byzBatch(byz), view, byz.ID)
			c.registerByzBlock(byz, b)
			if k == 3 || c.publicLeader(view) == byz.ID {
				c.sendAll(byz, hotstuff.ProposeMsg{ID: byz.ID, Block: b})
			}
			sig := c.sigRepeated(byz, b.ToBytes(), q)
			if sig == nil {
				break
			}
			parentQC = hotstuff.NewQuorumCert(sig, b.View(), b.Hash())
			parentHash = b.Hash()
			for _, o := range c.others(byz) {
				c.enqueue(byz, o, hotstuff.NewViewMsg{ID: byz.ID, SyncInfo: hotstuff.NewSyncInfoWith(parentQC)})
			}
			view++
		}
		c.trace(TraceEntry{Kind: "byz", From: byz.Name(), What: "forged-qc-chain", View: uint64(v)})
	case "stale-qc-replay":
		for _, qc := range st.qcs {
			for _, o := range c.others(byz) {
				c.enqueue(byz, o, hotstuff.NewViewMsg{ID: byz.ID, SyncInfo: hotstuff.NewSyncInfoWith(qc)})
			}
		}
		c.trace(TraceEntry{Kind: "byz", From: byz.Name(), What: "stale-qc-replay"})
	}
	c.FaultSteps++
	c.ByzActs++
	// phase 2: everybody (including the attacker) continues honestly
	for i := 0; i < 16 && c.Panic == nil && len(c.Mon.Viol) == 0; i++ {
		c.lockstepHonest(byz, proposed)
	}
	c.Mon.atEnd()
	c.Close()
	return c
}

var _ = crypto.NameEDDSA
