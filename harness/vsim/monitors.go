package vsim

import (
	"bytes"
	"crypto/sha256"
	"encoding/binary"
	"fmt"
	"sort"
	"sync"
	"time"

	"github.com/relab/hotstuff"
	"github.com/relab/hotstuff/core/eventloop"
	"github.com/relab/hotstuff/internal/proto/clientpb"
	"github.com/relab/hotstuff/verif/vbase"
	"github.com/relab/hotstuff/verif/vk"
)

// Monitors watch every honest node of one execution. Each violation is tagged with
// the property it refutes; a campaign keeps only its own property's violations.
type Monitors struct {
	c *Cluster
	// which monitors are on
	Commit, Vote, Pace, Exec bool
	Blocks                   bool // stored blocks stay content-addressed (C13)

	Viol []MonViolation

	// commit monitor
	commits map[int][]*hotstuff.Block // actor idx -> committed blocks in order
	// pacemaker monitor
	last     map[int]paceSnap
	vcEvents map[int][]hotstuff.ViewChangeEvent
	evidence *evidenceIndex
	signSeen int
	// vote monitor
	voteState    map[hotstuff.ID]*voteTrack
	unclassified int
	// exec monitor
	execEv     map[int][]execRec // actor idx -> Execute/Abort events in dispatch order
	digests    map[int]map[uint32][]byte
	succ       map[int]map[cmdKey]int
	barrierOff map[int]bool
	execSeqs   map[int][]string // actor idx -> reconstructed executed sequence (client/seq/data digest)
	outSeen    int
	// observations
	Obs map[string]int64
}

// MonViolation is a refuting observation with the property it belongs to.
type MonViolation struct {
	Prop string
	Sig  string
	Msg  string
}

type paceSnap struct {
	view, hqc, htc, committed hotstuff.View
	valid                     bool
}

type execRec struct {
	abort bool
	cmds  []*clientpb.Command
	ord   int64
}

func newMonitors(c *Cluster) *Monitors {
	m := &Monitors{c: c, commits: map[int][]*hotstuff.Block{}, last: map[int]paceSnap{}, vcEvents: map[int][]hotstuff.ViewChangeEvent{},
		evidence: newEvidenceIndex(c.W), voteState: map[hotstuff.ID]*voteTrack{}, execEv: map[int][]execRec{}, digests: map[int]map[uint32][]byte{}, succ: map[int]map[cmdKey]int{}, Obs: map[string]int64{}}
	for _, a := range c.Actors {
		if a.Node == nil {
			continue
		}
		a := a
		eventloop.Register(a.M.EL, func(e hotstuff.CommitEvent) { m.onCommit(a, e.Block) }, eventloop.Prioritize())
		eventloop.Register(a.M.EL, func(e hotstuff.ViewChangeEvent) { m.vcEvents[a.Idx] = append(m.vcEvents[a.Idx], e) }, eventloop.Prioritize())
		eventloop.Register(a.M.EL, func(e clientpb.ExecuteEvent) {
			m.execEv[a.Idx] = append(m.execEv[a.Idx], execRec{cmds: e.Batch.GetCommands(), ord: c.cmd.recorded.Load()})
		}, eventloop.Prioritize())
		eventloop.Register(a.M.EL, func(e clientpb.AbortEvent) {
			m.execEv[a.Idx] = append(m.execEv[a.Idx], execRec{abort: true, cmds: e.Batch.GetCommands(), ord: c.cmd.recorded.Load()})
		}, eventloop.Prioritize())
		m.last[a.Idx] = paceSnap{view: 1, valid: true}
		m.digests[a.Idx] = map[uint32][]byte{}
	}
	return m
}

func (m *Monitors) violate(prop, sig, format string, a ...any) {
	if len(m.Viol) < 20 {
		m.Viol = append(m.Viol, MonViolation{Prop: prop, Sig: sig, Msg: fmt.Sprintf(format, a...)})
	}
}

// onBlockSeen: as soon as a block is known to the harness, a client waiter for each of its commands is
// registered at every honest replica (commit lags proposals by >= 2 views), so executions normally have a witness.
func (m *Monitors) onBlockSeen(b *hotstuff.Block) {
	if !m.Exec || !m.c.Cfg.Clients || m.c.cmd == nil {
		return
	}
	for _, cmd := range b.Commands().GetCommands() {
		for _, a := range m.c.Actors {
			if a.CIO != nil && a.Judged() && !a.Crashed {
				m.c.cmd.submit(a, cmd)
			}
		}
	}
}

func (m *Monitors) beforeHandle(a *Actor, msg any) {}

// afterHandle runs after an actor's event loop was drained.
func (m *Monitors) afterHandle(a *Actor) {
	if a.Node == nil {
		return
	}
	if m.Pace && a.Judged() {
		m.checkPace(a)
	}
	if m.Exec && a.CIO != nil && a.Judged() {
		m.pollExec(a)
	}
}

// ---------------------------------------------------------------- C01 commit monitor

func (m *Monitors) onCommit(a *Actor, b *hotstuff.Block) {
	m.Obs["commit_events"]++
	if !a.Judged() {
		m.commits[a.Idx] = append(m.commits[a.Idx], b)
		return
	}
	prev := hotstuff.GetGenesis()
	if l := m.commits[a.Idx]; len(l) > 0 {
		prev = l[len(l)-1]
	}
	if m.Commit {
		for _, o := range m.commits[a.Idx] {
			if o.Hash() == b.Hash() {
				m.violate("C01", "commit-twice", "%s committed block view %d twice", a.Name(), b.View())
			}
		}
		if b.Parent() != prev.Hash() {
			known := "a registered block"
			if _, ok := m.c.W.Blocks.Get(b.Parent()); !ok {
				known = "unknown to everybody"
			}
			m.violate("C01", "commit-not-linked", "%s committed block (view %d, proposer %d) whose parent (%s) is not the block it committed immediately before (view %d)",
				a.Name(), b.View(), b.Proposer(), known, prev.View())
		}
		if b.View() <= prev.View() {
			m.violate("C01", "commit-view-order", "%s committed view %d after view %d", a.Name(), b.View(), prev.View())
		}
	}
	m.commits[a.Idx] = append(m.commits[a.Idx], b)
}

// checkPrefix compares the committed sequences of all judged actors pairwise.
func (m *Monitors) checkPrefix() {
	if !m.Commit {
		return
	}
	var js []*Actor
	for _, a := range m.c.Actors {
		if a.Judged() {
			js = append(js, a)
		}
	}
	for i := 0; i < len(js); i++ {
		for j := i + 1; j < len(js); j++ {
			x, y := m.commits[js[i].Idx], m.commits[js[j].Idx]
			k := min(len(x), len(y))
			for p := 0; p < k; p++ {
				if x[p].Hash() != y[p].Hash() {
					m.violate("C01", "commit-diverge", "committed ledgers diverge at position %d: %s has block view %d (proposer %d), %s has block view %d (proposer %d)",
						p, js[i].Name(), x[p].View(), x[p].Proposer(), js[j].Name(), y[p].View(), y[p].Proposer())
					return
				}
			}
		}
	}
}

// ---------------------------------------------------------------- evidence index (ground truth from the sign log)

// evidenceIndex answers "is there a view u >= v for which a quorum of distinct replicas
// really signed one block of view u, or really signed timeouts for view u".
type evidenceIndex struct {
	w            *vk.World
	next         int
	blockSig     map[hotstuff.Hash]map[hotstuff.ID]bool
	viewSig      map[hotstuff.View]map[hotstuff.ID]bool
	msgSig       map[hotstuff.View]map[hotstuff.ID]bool
	maxEvidence  hotstuff.View
	hasEvidence  bool
	unclassified int
}

func newEvidenceIndex(w *vk.World) *evidenceIndex {
	return &evidenceIndex{w: w, blockSig: map[hotstuff.Hash]map[hotstuff.ID]bool{}, viewSig: map[hotstuff.View]map[hotstuff.ID]bool{}, msgSig: map[hotstuff.View]map[hotstuff.ID]bool{}}
}

// classify a signed message: vote for a registered block, timeout view signature, or timeout message signature.
func classify(w *vk.World, e vk.SignEntry) (kind string, blk *hotstuff.Block, view hotstuff.View) {
	if b, ok := w.Blocks.ByBytes(e.Hash); ok {
		return "vote", b, b.View()
	}
	if len(e.Msg) == 8 {
		return "timeout", nil, hotstuff.View(binary.LittleEndian.Uint64(e.Msg))
	}
	if len(e.Msg) >= 12 && hotstuff.ID(binary.LittleEndian.Uint32(e.Msg[:4])) == e.Signer {
		return "timeoutmsg", nil, hotstuff.View(binary.LittleEndian.Uint64(e.Msg[4:12]))
	}
	return "other", nil, 0
}

func (x *evidenceIndex) update() {
	q := x.w.Q()
	for _, e := range x.w.Log.Since(x.next) {
		x.next = e.Seq + 1
		kind, blk, view := classify(x.w, e)
		var set map[hotstuff.ID]bool
		switch kind {
		case "vote":
			set = x.blockSig[blk.Hash()]
			if set == nil {
				set = map[hotstuff.ID]bool{}
				x.blockSig[blk.Hash()] = set
			}
		case "timeout":
			set = x.viewSig[view]
			if set == nil {
				set = map[hotstuff.ID]bool{}
				x.viewSig[view] = set
			}
		case "timeoutmsg":
			set = x.msgSig[view]
			if set == nil {
				set = map[hotstuff.ID]bool{}
				x.msgSig[view] = set
			}
		default:
			x.unclassified++
			continue
		}
		set[e.Signer] = true
		if len(set) >= q && (!x.hasEvidence || view > x.maxEvidence) {
			x.maxEvidence, x.hasEvidence = view, true
		}
	}
}

// ---------------------------------------------------------------- C07 pacemaker monitor

func (m *Monitors) checkPace(a *Actor) {
	vs := a.Node.VS
	cur := paceSnap{view: vs.View(), hqc: vs.HighQC().View(), htc: vs.HighTC().View(), committed: vs.CommittedBlock().View(), valid: true}
	prev := m.last[a.Idx]
	m.Obs["pace_polls"]++
	if cur.view < prev.view {
		m.violate("C07", "view-decreased", "%s: view went from %d to %d", a.Name(), prev.view, cur.view)
	}
	if cur.hqc < prev.hqc {
		m.violate("C07", "highqc-decreased", "%s: view of the highest QC went from %d to %d", a.Name(), prev.hqc, cur.hqc)
	}
	if cur.htc < prev.htc {
		m.violate("C07", "hightc-decreased", "%s: view of the highest TC went from %d to %d", a.Name(), prev.htc, cur.htc)
	}
	if cur.committed < prev.committed {
		m.violate("C07", "committed-decreased", "%s: view of the committed block went from %d to %d", a.Name(), prev.committed, cur.committed)
	}
	evs := m.vcEvents[a.Idx]
	m.vcEvents[a.Idx] = nil
	// every change of the current view must be signalled to the node's own components: at least one
	// ViewChangeEvent, announcing views inside (prev, cur] in increasing order, the last one announcing the
	// view the node is now in. (A replica may legitimately enter several views at once when it catches up
	// with a certificate from a later view; one event per entered view is not demanded.)
	if cur.view == prev.view {
		if len(evs) != 0 {
			m.violate("C07", "viewchange-signal-spurious", "%s: %d view-change events signalled but the view stayed %d", a.Name(), len(evs), cur.view)
		}
	} else if cur.view > prev.view {
		if len(evs) == 0 {
			m.violate("C07", "viewchange-not-signalled", "%s: view went from %d to %d without any view-change event", a.Name(), prev.view, cur.view)
		} else {
			lastV := prev.view
			okOrder := true
			for _, e := range evs {
				if e.View <= lastV || e.View > cur.view {
					okOrder = false
				}
				lastV = e.View
			}
			if !okOrder || evs[len(evs)-1].View != cur.view {
				m.violate("C07", "viewchange-signal-order", "%s: view went from %d to %d but the view-change events announce %v", a.Name(), prev.view, cur.view, evs)
			}
		}
	}
	if cur.view > prev.view {
		m.Obs["view_advances"] += int64(cur.view - prev.view)
		m.evidence.update()
		// the last view left is cur.view-1; leaving it needs evidence for a view >= cur.view-1
		need := cur.view - 1
		if !m.evidence.hasEvidence || m.evidence.maxEvidence < need {
			have := "none"
			if m.evidence.hasEvidence {
				have = fmt.Sprint(m.evidence.maxEvidence)
			}
			m.violate("C07", "advance-without-evidence", "%s left view %d although no quorum of distinct replicas ever voted for a block of a view >= %d or signed timeouts for such a view (highest view with such evidence: %s)",
				a.Name(), need, need, have)
		}
	}
	// certified state held must be genuine
	hq := vs.HighQC()
	if v, _ := m.c.W.TrueQC(hq); v == vk.MustReject {
		m.violate("C07", "highqc-not-genuine", "%s holds a high QC (view %d) that is not backed by a quorum of real votes for the block and view it names", a.Name(), hq.View())
	}
	if b, ok := m.c.W.Blocks.Get(hq.BlockHash()); ok && b.View() != hq.View() {
		m.violate("C07", "highqc-view-label", "%s: high QC claims view %d but certifies a block of view %d", a.Name(), hq.View(), b.View())
	}
	if v, _ := m.c.W.TrueTC(vs.HighTC()); v == vk.MustReject {
		m.violate("C07", "hightc-not-genuine", "%s holds a high TC (view %d) not backed by a quorum of real timeout signatures", a.Name(), vs.HighTC().View())
	}
	m.last[a.Idx] = cur
}

// ---------------------------------------------------------------- C03 vote monitor

type voteTrack struct {
	next         int
	lastVoteView hotstuff.View
	voted        bool
	maxTimeout   hotstuff.View
	timedOut     bool
	votes        int
}

// checkVotes is an offline pass over the sign log of every honest key, in signing order.
func (m *Monitors) checkVotes() {
	if !m.Vote {
		return
	}
	w := m.c.W
	judged := map[hotstuff.ID]*Actor{}
	for _, a := range m.c.Actors {
		if a.Judged() {
			judged[a.ID] = a
		}
	}
	from := 1 << 62
	for id := range judged {
		t := m.voteState[id]
		if t == nil {
			t = &voteTrack{}
			m.voteState[id] = t
		}
		if t.next < from {
			from = t.next
		}
	}
	if from == 1<<62 {
		return
	}
	for _, e := range w.Log.Since(from) {
		a, ok := judged[e.Signer]
		if !ok {
			continue
		}
		t := m.voteState[e.Signer]
		if e.Seq < t.next {
			continue
		}
		t.next = e.Seq + 1
		kind, b, view := classify(w, e)
		switch kind {
		case "timeout", "timeoutmsg":
			if !t.timedOut || view > t.maxTimeout {
				t.maxTimeout, t.timedOut = view, true
			}
		case "vote":
			t.votes++
			m.Obs["votes_observed"]++
			if t.voted && b.View() <= t.lastVoteView {
				kindv := "vote-view-not-increasing"
				if b.View() == t.lastVoteView {
					kindv = "vote-twice-in-view"
				}
				m.violate("C03", kindv, "%s signed a vote for a block of view %d after having voted in view %d", a.Name(), b.View(), t.lastVoteView)
			}
			if t.timedOut && b.View() <= t.maxTimeout {
				m.violate("C03", "vote-after-timeout", "%s signed a vote for view %d after having signed a timeout for view %d", a.Name(), b.View(), t.maxTimeout)
			}
			t.lastVoteView, t.voted = b.View(), true
			// well-formedness of the proposal voted for
			leader := a.Node.LR.Inner.GetLeader(b.View())
			if ans, ok := a.Node.LR.Answered(b.View()); ok {
				leader = ans
			}
			if b.Proposer() != leader {
				m.violate("C03", "vote-non-leader", "%s voted for a block of view %d proposed by %d, the designated leader of that view is %d", a.Name(), b.View(), b.Proposer(), leader)
			}
			qc := b.QuorumCert()
			if v, signers := w.TrueQC(qc); v == vk.MustReject {
				m.violate("C03", "vote-invalid-qc", "%s voted for a block of view %d whose QC (claimed view %d) is not a valid certificate (%d real signers)", a.Name(), b.View(), qc.View(), len(signers))
			}
			if b.Parent() != qc.BlockHash() {
				m.violate("C03", "vote-parent-not-certified", "%s voted for a block of view %d whose parent is not the block its QC certifies", a.Name(), b.View())
			}
			if qb, ok := w.Blocks.Get(qc.BlockHash()); ok && b.View() <= qb.View() {
				m.violate("C03", "vote-view-not-above-qc", "%s voted for a block of view %d whose QC certifies a block of view %d", a.Name(), b.View(), qb.View())
			}
		default:
			m.unclassified++
		}
	}
}

// ---------------------------------------------------------------- C06 execution monitor

func (m *Monitors) pollExec(a *Actor) {
	cnt := a.CIO.CmdCount()
	if _, ok := m.digests[a.Idx][cnt]; !ok {
		m.digests[a.Idx][cnt] = a.CIO.Hash().Sum(nil)
	}
}

// settle is a logical barrier: every client waiter that ClientIO has completed (it is no longer in
// awaitingCmds) must have recorded its outcome before the monitor looks at the outcome list.
func (m *Monitors) settle() {
	f := m.c.cmd
	for _, a := range m.c.Actors {
		deadline := time.Now().Add(3 * time.Second)
		if a.CIO == nil {
			continue
		}
		pm, ok1 := vk.Peek[sync.Mutex](a.CIO, "mut")
		pw, ok2 := vk.Peek[map[clientpb.MessageID]chan<- error](a.CIO, "awaitingCmds")
		if !ok1 || !ok2 {
			m.c.R.Note("ClientIO.awaitingCmds not readable: outcome barrier degraded to a short sleep")
			time.Sleep(300 * time.Microsecond)
			return
		}
		if m.barrierOff[a.Idx] {
			continue
		}
		for {
			pm.Lock()
			awaiting := len(*pw)
			pm.Unlock()
			f.mu.Lock()
			sub, rec := f.submitted[a.Idx], f.recordedBy[a.Idx]
			f.mu.Unlock()
			if rec >= sub-awaiting {
				break
			}
			if time.Now().After(deadline) {
				// a call that is neither waiting in awaitingCmds nor returned: its waiter was lost. "At most one outcome"
				// allows that; the barrier is given up for this replica (outcomes are then seen when they are recorded,
				// which can only delay a verdict) and the execution goes on.
				m.c.R.Note("outcome barrier given up for %s: %d calls submitted, %d returned, %d waiting in ClientIO", a.Name(), sub, rec, awaiting)
				m.Obs["client_calls_neither_waiting_nor_returned"] += int64(sub - awaiting - rec)
				if m.barrierOff == nil {
					m.barrierOff = map[int]bool{}
				}
				m.barrierOff[a.Idx] = true
				break
			}
			time.Sleep(5 * time.Microsecond)
		}
	}
}

// checkExecStep looks at the outcomes recorded since the last step.
func (m *Monitors) checkExecStep() {
	if !m.Exec {
		return
	}
	m.settle()
	f := m.c.cmd
	f.mu.Lock()
	outs := append([]Outcome(nil), f.outcomes[m.outSeen:]...)
	m.outSeen = len(f.outcomes)
	f.mu.Unlock()
	for _, o := range outs {
		a := m.c.Actors[o.Actor]
		if !a.Judged() {
			continue
		}
		if o.Err != nil {
			m.Obs["abort_outcomes"]++
			continue
		}
		m.Obs["success_outcomes"]++
		if m.succ[o.Actor] == nil {
			m.succ[o.Actor] = map[cmdKey]int{}
		}
		m.succ[o.Actor][o.ID]++
		if m.succ[o.Actor][o.ID] > 1 {
			m.violate("C06", "two-success-outcomes", "%s reported success twice for command (%d,%d)", a.Name(), o.ID.ClientID, o.ID.SequenceNumber)
		}
		// the command must be in an ExecuteEvent that this replica has already dispatched
		found := false
		for _, ev := range m.execEv[a.Idx] {
			if ev.abort {
				continue
			}
			for _, cmd := range ev.cmds {
				if keyOf(cmd) == o.ID {
					found = true
				}
			}
		}
		if !found {
			m.violate("C06", "success-before-execution", "%s reported success for command (%d,%d) before (or without) executing it", a.Name(), o.ID.ClientID, o.ID.SequenceNumber)
		}
	}
}

// checkExecEnd runs the whole-history checks.
func (m *Monitors) checkExecEnd() {
	if !m.Exec {
		return
	}
	m.checkExecStep()
	var js []*Actor
	for _, a := range m.c.Actors {
		if a.Judged() && a.CIO != nil {
			js = append(js, a)
		}
	}
	for _, a := range js {
		chain := m.commits[a.Idx]
		firstPos := map[cmdKey]int{}
		pos := 0
		dupInChain := false
		for _, b := range chain {
			for _, cmd := range b.Commands().GetCommands() {
				if _, ok := firstPos[keyOf(cmd)]; !ok {
					firstPos[keyOf(cmd)] = pos
				} else {
					dupInChain = true
				}
				pos++
			}
		}
		if dupInChain {
			m.Obs["chains_with_repeated_command"]++
		}
		if int(a.CIO.CmdCount()) > len(firstPos) {
			m.violate("C06", "executed-more-than-committed", "%s executed %d commands but its committed chain holds only %d distinct commands (a command was executed twice or without being committed)",
				a.Name(), a.CIO.CmdCount(), len(firstPos))
		}
		// which commands did the replica execute? Reconstruct its executed sequence from the execution events it dispatched
		// (first occurrence per client above the client's watermark) and accept the reconstruction only if count and state
		// digest agree with the replica's own; then a success outcome for a command outside that sequence is a success for
		// a command the replica never executed.
		{
			last := map[uint32]uint64{}
			h := sha256.New()
			cnt := 0
			executed := map[cmdKey]bool{}
			for _, ev := range m.execEv[a.Idx] {
				if ev.abort {
					continue
				}
				for _, cmd := range ev.cmds {
					if s, ok := last[cmd.GetClientID()]; ok && s >= cmd.GetSequenceNumber() {
						continue
					}
					last[cmd.GetClientID()] = cmd.GetSequenceNumber()
					h.Write(cmd.GetData())
					cnt++
					executed[keyOf(cmd)] = true
				}
			}
			if cnt == int(a.CIO.CmdCount()) && bytes.Equal(h.Sum(nil), a.CIO.Hash().Sum(nil)) {
				m.Obs["executed_sequences_reconstructed"]++
				// remember the sequence itself: the executed sequences of two honest replicas must be prefix-related
				var seqStr []string
				l2 := map[uint32]uint64{}
				for _, ev := range m.execEv[a.Idx] {
					if ev.abort {
						continue
					}
					for _, cmd := range ev.cmds {
						if s2, ok := l2[cmd.GetClientID()]; ok && s2 >= cmd.GetSequenceNumber() {
							continue
						}
						l2[cmd.GetClientID()] = cmd.GetSequenceNumber()
						seqStr = append(seqStr, fmt.Sprintf("%d/%d/%x", cmd.GetClientID(), cmd.GetSequenceNumber(), sha256.Sum256(cmd.GetData())))
					}
				}
				if m.execSeqs == nil {
					m.execSeqs = map[int][]string{}
				}
				m.execSeqs[a.Idx] = seqStr
				for id := range m.succ[a.Idx] {
					if !executed[id] {
						m.violate("C06", "success-not-executed", "%s reported success for command (%d,%d), which it skipped and never executed (its state digest is that of the sequence without it)", a.Name(), id.ClientID, id.SequenceNumber)
					}
				}
			} else if int(a.CIO.CmdCount()) < cnt {
				// fewer than the committed ledger holds when every (client, sequence number) is executed once and only commands at
				// or below an EXECUTED sequence number of their client are skipped: a committed command was dropped
				m.violate("C06", "executed-fewer-than-ledger", "%s executed %d commands; its own execution events, each command once in ledger order, hold %d (a committed command that was never executed before was skipped)", a.Name(), a.CIO.CmdCount(), cnt)
			} else if a.CIO.CmdCount() > 0 {
				m.Obs["executed_sequences_not_reconstructed"]++
			}
		}
		type sp struct {
			id  cmdKey
			pos int
		}
		var seq []sp
		for id := range m.succ[a.Idx] {
			p, ok := firstPos[id]
			if !ok {
				m.violate("C06", "success-not-committed", "%s reported success for command (%d,%d) that is not in its committed chain", a.Name(), id.ClientID, id.SequenceNumber)
				continue
			}
			seq = append(seq, sp{id, p})
		}
		sort.Slice(seq, func(i, j int) bool { return seq[i].pos < seq[j].pos })
		// full check when every executed command had a live waiter: the executed sequence is the success set in chain order
		if len(seq) == int(a.CIO.CmdCount()) && len(seq) > 0 {
			h := sha256.New()
			for _, x := range seq {
				h.Write(CmdData(x.id.ClientID, x.id.SequenceNumber))
			}
			if !bytes.Equal(h.Sum(nil), a.CIO.Hash().Sum(nil)) {
				m.violate("C06", "digest-not-chain-order", "%s: application digest differs from the digest of the commands it reported as executed, taken in committed-chain order", a.Name())
			}
			m.Obs["full_digest_checks"]++
		} else if a.CIO.CmdCount() > 0 {
			m.Obs["full_digest_checks_skipped"]++
		}
	}
	for i := 0; i < len(js); i++ {
		for j := i + 1; j < len(js); j++ {
			if sa, ok := m.execSeqs[js[i].Idx]; ok {
				if sb, ok := m.execSeqs[js[j].Idx]; ok {
					m.Obs["executed_sequence_pairs_compared"]++
					for k := 0; k < len(sa) && k < len(sb); k++ {
						if sa[k] != sb[k] {
							m.violate("C06", "exec-sequence-diverge", "%s and %s executed different commands at position %d of their executed sequences (client/sequence/data digest %.40s vs %.40s)", js[i].Name(), js[j].Name(), k, sa[k], sb[k])
							break
						}
					}
				}
			}
			for cnt, d := range m.digests[js[i].Idx] {
				if d2, ok := m.digests[js[j].Idx][cnt]; ok {
					m.Obs["digest_comparisons"]++
					if cnt > 0 {
						m.Obs["digest_comparisons_nonzero"]++
					}
					if !bytes.Equal(d, d2) {
						m.violate("C06", "digest-diverge", "%s and %s expose different application digests after %d executed commands", js[i].Name(), js[j].Name(), cnt)
						return
					}
				}
			}
		}
	}
}

var _ = vbase.Sig

// checkStoredBlocks (C13): whatever a replica went through - proposals, fetches, commits, execution, pruning - every block
// it holds under hash h still serializes to bytes whose digest is h (and that are the bytes the block was created with).
func (m *Monitors) checkStoredBlocks() {
	if !m.Blocks {
		return
	}
	for _, a := range m.c.Actors {
		if !a.Judged() || a.Node == nil {
			continue
		}
		for _, b := range m.c.W.Blocks.All() {
			st, ok := a.M.Chain.LocalGet(b.Hash())
			if !ok {
				continue
			}
			m.Obs["stored_blocks_checked"]++
			if sha256.Sum256(st.ToBytes()) != [32]byte(st.Hash()) {
				m.violate("C13", "stored-block-mutated", "%s: the block it holds under hash %.8x (view %d, %d commands) no longer hashes to that value - a stored block was modified in place", a.Name(), st.Hash(), st.View(), len(st.Commands().GetCommands()))
				return
			}
		}
	}
}
