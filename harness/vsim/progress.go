package vsim

import (
	"fmt"
	"os"

	"github.com/relab/hotstuff"
	"github.com/relab/hotstuff/protocol/rules"
	"github.com/relab/hotstuff/security/crypto"
	"github.com/relab/hotstuff/verif/vbase"
	"github.com/relab/hotstuff/verif/vk"
)

func init() {
	vk.Register("C05.progress", c05Progress)
	vk.Register("C05.faultfree", c05FaultFree)
}

// Bounds of the bounded-progress restatement (fixed constants, calibrated once on the
// unchanged tree with margin; not tuned per run).
// Measured on the repaired tree over 5 seeds x 993 executions: at most 4 views and 14 rounds (chained, simple).
func progressViewBound(chainLen, spread int) int { return 4*chainLen + 2 }
func progressRoundBound(spread int) int          { return 60 }

// genProgressConfig: the faulty set is fixed up front (crash / silent twins / silent scripted) so
// that the leader schedule of the suffix can be restricted to the live honest quorum.
func genProgressConfig(rng *vbase.Rng) (Config, map[hotstuff.ID]bool) {
	cfg := Config{Profile: []string{"async-chaos", "partition-heal", "twins-lockstep"}[rng.Intn(3)], Intensity: rng.Intn(3)}
	cfg.N = []int{4, 4, 7}[rng.Intn(3)]
	cfg.Ruleset = Rulesets[rng.Intn(3)]
	cfg.Scheme = crypto.NameEDDSA
	if rng.Chance(1, 8) {
		cfg.Scheme = crypto.NameECDSA
	}
	cfg.Cache = []uint{0, 100}[rng.Intn(2)]
	cfg.BatchSize = uint32(rng.Range(1, 2))
	cfg.ByzRules = map[hotstuff.ID]string{}
	cfg.Steps = rng.Range(40, 300)
	if cfg.Profile == "twins-lockstep" {
		cfg.Steps = rng.Range(5, 30)
	}
	f := vk.RefFaulty(cfg.N)
	faulty := map[hotstuff.ID]bool{}
	cfg.Leader = []string{"round-robin", "script", "fixed"}[rng.Intn(3)]
	nf := 0
	if cfg.Leader != "round-robin" {
		nf = rng.Range(0, f)
	}
	perm := rng.Perm(cfg.N)
	for k := 0; k < nf; k++ {
		id := hotstuff.ID(perm[k] + 1)
		if cfg.Leader == "fixed" && id == 1 {
			continue
		}
		faulty[id] = true
		switch rng.Intn(3) {
		case 0:
			cfg.Twins = append(cfg.Twins, id)
		case 1:
			cfg.Scripted = append(cfg.Scripted, id)
		default: // plain crash during the prefix (handled by the scheduler's crash step) - mark as scripted-silent here
			cfg.Scripted = append(cfg.Scripted, id)
		}
	}
	if cfg.Leader == "script" {
		var live []hotstuff.ID
		for _, id := range vk.IDs(cfg.N) {
			if !faulty[id] {
				live = append(live, id)
			}
		}
		l := rng.Range(len(live), 3*len(live))
		for i := 0; i < l; i++ {
			cfg.Sched = append(cfg.Sched, live[rng.Intn(len(live))])
		}
	}
	return cfg, faulty
}

func c05Progress(p vbase.Params, r *vbase.Result) {
	r.Rule = "bounded-progress restatement: a hostile prefix (async-chaos / partition-heal / twins-lockstep, <= f crashed, silent-twin or silent-scripted replicas fixed up front) followed by a SYNCHRONOUS suffix among the " +
		"live honest quorum Q (per round: deliver every pending message between members of Q in FIFO order; if nothing was delivered every member's timer fires; in every second suffix delays are unequal: each message takes one or two rounds, links are FIFO and interleaved in PRNG order, so votes may overtake the proposal they answer - in half of those the slow message is always the proposal's copy to the next leader; timers fire only when nothing is in flight, a PRNG-chosen subset first and the rest one round later unless restarted), following views led by members of Q " +
		"(scripted and fixed schedules for any faulty set, round-robin only with an empty one), commands always available (and a command cache holding a full fresh batch always has its wake-up pending); claim: every member of Q commits a new block before max-view(Q) grew by 4*ChainLength+2 views " +
		"and within 60 rounds; non-trivial: members of Q were >= 2 views apart or a timeout certificate was needed at healing time; distinct: prefix trace"
	r.Assume("liveness is decided only as bounded progress in logical rounds of the simulator; unbounded 'eventually', real-time timers and dynamic view-duration adaptation are out of reach of this technique")
	n := p.N(900, 90000)
	const noDbg = -1 << 30
	dbg := noDbg
	if v := os.Getenv("VERIF_DEBUG_CASE"); v != "" {
		fmt.Sscan(v, &dbg)
	}
	// directed family first: one honest replica is cut off while the others make fault-free progress for K views, then rejoins
	type lagCase struct {
		ruleset, leader string
		n, k            int
	}
	var lags []lagCase
	for _, rs := range Rulesets[:2] {
		for _, nn := range []int{4, 7} {
			for _, ld := range []string{"fixed", "script", "round-robin"} {
				for _, k := range []int{2, 5, 9, 10, 11, 12, 15, 25, 40} {
					lags = append(lags, lagCase{rs, ld, nn, k})
				}
			}
			// the replica that was cut off leads every view after the healing (it is a member of the live quorum)
			for _, k := range []int{2, 3, 5, 9, 12} {
				lags = append(lags, lagCase{rs, "lag-leads", nn, k})
			}
			// an exact live quorum split over two views by asymmetric loss of timeout messages (see prefixSplitViews)
			for k := 0; k < 6; k++ {
				lags = append(lags, lagCase{rs, "split-views", nn, k})
			}
		}
	}
	for i := -len(lags); i < n; i++ {
		if dbg != noDbg && i != dbg {
			continue
		}
		if i < 0 && !p.Mine(-i) && dbg == noDbg {
			continue
		}
		rng := vbase.NewRng(p.Seed, "C05.progress", p.Shard, p.NShards, i)
		cfg, faulty := genProgressConfig(rng)
		lagK := 0
		if i < 0 {
			lc := lags[-i-1]
			lagK = lc.k
			faulty = map[hotstuff.ID]bool{}
			cfg = Config{N: lc.n, Ruleset: lc.ruleset, Scheme: crypto.NameEDDSA, Cache: uint([]int{0, 100}[lc.k%2]), Leader: lc.leader, BatchSize: 1,
				Profile: "directed:deep-lag", ByzRules: map[hotstuff.ID]string{}, Label: fmt.Sprintf("deep-lag/%d", lc.k)}
			if lc.leader == "lag-leads" {
				cfg.Leader = "script"
				// views 1..k are led by the others; from view k+1 on - the view in which the cut ends - the lagging replica leads
				for k := 0; k < lc.k; k++ {
					cfg.Sched = append(cfg.Sched, hotstuff.ID(1+rng.Intn(lc.n-1)))
				}
				for k := 0; k < 80; k++ {
					cfg.Sched = append(cfg.Sched, hotstuff.ID(lc.n))
				}
				cfg.Label = fmt.Sprintf("deep-lag-leads/%d", lc.k)
			}
			if lc.leader == "split-views" {
				lagK = 0
				cfg.Leader = "fixed"
				cfg.Profile = "directed:split-views"
				cfg.Label = fmt.Sprintf("split-views/%d", lc.k)
				for id := lc.n - hotstuff.NumFaulty(lc.n) + 1; id <= lc.n; id++ {
					faulty[hotstuff.ID(id)] = true
				}
			}
			if lc.leader == "script" {
				// the lagging replica (the last one) never leads
				for k := 0; k < 2*lc.n; k++ {
					cfg.Sched = append(cfg.Sched, hotstuff.ID(1+rng.Intn(lc.n-1)))
				}
			}
		}
		c, err := NewCluster(cfg, rng, r)
		if err != nil {
			r.Inconclusive(err.Error())
			return
		}
		c.OnHang = func(site string, tail []TraceEntry) {
			if site == "harness" || site == "unknown" {
				r.Inconclusive("execution watchdog fired outside repository code")
			} else {
				r.Violate(vbase.Sig("hang", "site", site), fmt.Sprintf("a replica's event loop thread is stuck (60s, no blocking call) inside %s [%s]", site, cfg.String()),
					map[string]any{"seed": p.Seed, "shard": p.Shard, "case": i, "config": cfg.String(), "trace_tail": tail})
			}
			_ = r.Write(p.Out)
		}
		c.OnCachedBatchWithoutWakeup = func(a *Actor, fresh int) {
			r.Violate(vbase.Sig("commands-cached-but-no-wakeup", "ruleset", cfg.Ruleset),
				fmt.Sprintf("%s holds %d fresh commands (batch size %d) but its command cache has no pending wake-up: the next proposal would wait for a new client command although commands are available [%s]",
					a.Name(), fresh, cfg.BatchSize, cfg.String()), map[string]any{"seed": p.Seed, "shard": p.Shard, "case": i, "config": cfg.String()})
			c.OnCachedBatchWithoutWakeup = nil
		}
		// prefix: hostile; scripted actors stay silent (they are crash/silent faults here), twins run
		savedScripted := cfg.Scripted
		_ = savedScripted
		c.Cfg.Profile = cfg.Profile
		var splitLag *Actor
		if cfg.Profile == "directed:split-views" {
			splitLag = c.prefixSplitViews(lags[-i-1].k, faulty)
			if splitLag == nil && c.Panic == nil {
				c.Close()
				r.Obs("split_views_setup_not_reached", 1)
				continue
			}
			r.Obs("split_views_setups_reached", 1)
		} else if lagK > 0 {
			c.prefixIsolateLast(lagK)
		} else {
			c.runPrefixNoByz()
		}
		if c.Panic != nil {
			c.Close()
			r.Obs("prefix_panics_judged_under_C10", 1)
			continue
		}
		// healing: Q = live honest replicas; everything else falls silent; links inside Q are open
		var Q []*Actor
		for _, a := range c.Actors {
			if a.Kind == Honest && !a.Crashed && !faulty[a.ID] {
				Q = append(Q, a)
			} else {
				a.Crashed = true
			}
		}
		c.Heal()
		c.NoFaults = true
		pool := c.Pool[:0]
		for _, pm := range c.Pool {
			if !c.Actors[pm.From].Crashed && !c.Actors[pm.To].Crashed {
				pool = append(pool, pm)
			}
		}
		c.Pool = pool
		if len(Q) < c.W.Q() {
			c.Close()
			r.Obs("skipped_no_live_quorum", 1)
			continue
		}
		base := map[int]int{}
		minV, maxV := hotstuff.View(1<<62), hotstuff.View(0)
		for _, a := range Q {
			base[a.Idx] = len(c.Mon.commits[a.Idx])
			v := a.Node.VS.View()
			if v < minV {
				minV = v
			}
			if v > maxV {
				maxV = v
			}
		}
		spread := int(maxV - minV)
		chainLen := Q[0].Node.Rules.ChainLength()
		B, R := progressViewBound(chainLen, spread), progressRoundBound(spread)
		timeoutsBefore := c.Timeouts
		if dbg != noDbg {
			for _, a := range Q {
				a.M.Logger.Keep = 400
			}
		}
		rounds, ok := 0, false
		usedViews := 0
		// every second suffix has bounded but unequal delays (one or two rounds per message, links FIFO, links interleaved)
		jr := vbase.NewRng(p.Seed, "C05.delays", p.Shard, p.NShards, i)
		unequal := jr.Chance(1, 2)
		slowProposals := unequal && jr.Chance(1, 2)
		if splitLag != nil {
			// the split is only interesting when the replicas' timers do not all fire in the same instant
			unequal, slowProposals = true, false
			if lags[-i-1].k%2 == 0 {
				c.staggerFirst = splitLag // the lagging replica's timer is the first to fire
			}
		}
		if unequal {
			c.Cfg.Label += " unequal-delays"
			r.Obs("suffixes_with_unequal_delays", 1)
		}
		if slowProposals {
			r.Obs("suffixes_with_slow_proposals_to_the_next_leader", 1)
		}
		for rounds = 1; rounds <= R+40; rounds++ {
			c.cmd.topUp()
			c.Step++
			if unequal {
				c.boundedDelayRound(jr, slowProposals)
			} else {
				c.lockstepRound(nil)
			}
			if c.Panic != nil {
				break
			}
			all := true
			cur := hotstuff.View(0)
			for _, a := range Q {
				if len(c.Mon.commits[a.Idx]) <= base[a.Idx] {
					all = false
				}
				if v := a.Node.VS.View(); v > cur {
					cur = v
				}
			}
			usedViews = int(cur - maxV)
			if dbg != noDbg {
				fmt.Fprintf(os.Stderr, "round %d pool=%d timeouts=%d:", rounds, len(c.Pool), c.Timeouts)
				for _, a := range Q {
					fmt.Fprintf(os.Stderr, " %s[v=%d hqc=%d c=%d]", a.Name(), a.Node.VS.View(), a.Node.VS.HighQC().View(), len(c.Mon.commits[a.Idx]))
				}
				fmt.Fprintln(os.Stderr)
				if os.Getenv("VERIF_DEBUG_ROUND") == fmt.Sprint(rounds) {
					for _, a := range Q {
						for _, l := range a.M.Logger.Tail() {
							fmt.Fprintln(os.Stderr, "   ", l)
						}
					}
				}
			}
			if all {
				ok = true
				break
			}
			if usedViews > B+12 {
				break
			}
		}
		neededTC := c.Timeouts > timeoutsBefore
		nt := spread >= 2 || neededTC
		r.Eval(nt, c.TraceSig())
		r.Obs("suffix_rounds_total", int64(rounds))
		r.ObsMax("max_rounds_until_all_committed", int64(rounds))
		r.ObsMax("max_views_until_all_committed", int64(usedViews))
		if ok {
			r.ObsMax("max_views_until_all_committed_"+cfg.Ruleset, int64(usedViews))
			r.ObsMax("max_rounds_until_all_committed_"+cfg.Ruleset, int64(rounds))
		}
		r.ObsMax("max_view_spread_at_healing", int64(spread))
		r.Obs("executions_"+cfg.Ruleset, 1)
		if neededTC {
			r.Obs("suffixes_needing_timeouts", 1)
		}
		rep := map[string]any{"engine": "vsim", "seed": p.Seed, "shard": p.Shard, "nshards": p.NShards, "case": i, "config": cfg.String(), "spread": spread, "rounds": rounds, "views_used": usedViews, "unequal_delays": unequal, "slow_proposals": slowProposals}
		if c.Panic == nil {
			if !ok || usedViews > B {
				r.Violate(vbase.Sig("no-progress", "ruleset", cfg.Ruleset, "kind", map[bool]string{true: "view-bound", false: "stall"}[ok || usedViews > B]),
					fmt.Sprintf("after healing, a synchronous quorum of %d honest replicas (leaders in the quorum, commands available) did not all commit a new block within %d views (used %d) / %d rounds (ran %d); "+
						"view spread at healing %d [%s unequal-delays=%v slow-proposals-to-next-leader=%v]", len(Q), B, usedViews, R, rounds, spread, cfg.String(), unequal, slowProposals), rep)
			} else if rounds > R {
				r.Violate(vbase.Sig("no-progress", "ruleset", cfg.Ruleset, "kind", "round-bound"),
					fmt.Sprintf("progress resumed only after %d rounds (bound %d) [%s]", rounds, R, cfg.String()), rep)
			}
		}
		if nt && r.WantSample() {
			s := c.Summary()
			s["suffix"] = map[string]any{"quorum": len(Q), "view_spread": spread, "rounds_until_all_committed": rounds, "views_used": usedViews}
			r.Sample(s)
		}
		c.Close()
	}
}

// prefixIsolateLast cuts the last replica off while the others run fault-free lock-step rounds until they are k views ahead.
func (c *Cluster) prefixIsolateLast(k int) {
	c.Start()
	groups := make([]int, len(c.Actors))
	groups[len(groups)-1] = 1
	c.SetPartition(groups)
	c.NoFaults = true
	c.CutLoss = true
	lag := c.Actors[len(c.Actors)-1]
	for c.Step = 1; c.Step <= 40*k+60 && c.Panic == nil; c.Step++ {
		c.cmd.topUp()
		c.lockstepRound(nil)
		if int(c.Actors[0].Node.VS.View())-int(lag.Node.VS.View()) >= k {
			break
		}
	}
	c.FaultSteps++
}

// prefixSplitViews builds the state "an exact live quorum split over two views": the last f replicas are silent from the
// start, replica 1 leads every view; after a few fault-free views every proposal is lost: the replicas leave two views by
// timeout certificates; in the third, the timeout messages addressed to one replica L are lost as well (its own reach the
// others). The others assemble the certificate and move on, L stays one view behind holding the previous TC, which is
// newer than its high QC. Returns L, or nil when the state was not reached.
func (c *Cluster) prefixSplitViews(variant int, faulty map[hotstuff.ID]bool) *Actor {
	c.Start()
	c.NoFaults = true
	var Q []*Actor
	for _, a := range c.Actors {
		if faulty[a.ID] {
			a.Crashed = true
		} else if a.Node != nil {
			Q = append(Q, a)
		}
	}
	c.purge()
	if len(Q) < 3 {
		return nil
	}
	L := Q[1+(variant/2)%(len(Q)-1)]
	minView := func(as []*Actor) hotstuff.View {
		m := hotstuff.View(1 << 62)
		for _, a := range as {
			if v := a.Node.VS.View(); v < m {
				m = v
			}
		}
		return m
	}
	round := func(drop func(p Pending) bool) {
		c.cmd.topUp()
		c.Step++
		if drop != nil {
			kept := c.Pool[:0]
			for _, p := range c.Pool {
				if !drop(p) {
					kept = append(kept, p)
				}
			}
			c.Pool = kept
		}
		c.lockstepRound(nil)
	}
	for k := 0; k < 40 && c.Panic == nil && minView(Q) < hotstuff.View(4+variant%3); k++ {
		round(nil)
	}
	w := hotstuff.View(0)
	for _, a := range Q {
		if v := a.Node.VS.View(); v > w {
			w = v
		}
	}
	// from now on every proposal of a view above w is lost: the replicas leave view w and view w+1 by timeout certificates
	F := w + 1
	isProposal := func(p Pending) bool {
		pm, ok := p.Msg.(hotstuff.ProposeMsg)
		return ok && pm.Block != nil && pm.Block.View() >= F
	}
	for k := 0; k < 24 && c.Panic == nil && minView(Q) < F+1; k++ {
		round(isProposal)
	}
	if minView(Q) != F+1 {
		return nil
	}
	// view F+1 fails too; the others' timeouts for it never reach L
	var others []*Actor
	for _, a := range Q {
		if a != L {
			others = append(others, a)
		}
	}
	for k := 0; k < 12 && c.Panic == nil && minView(others) < F+2; k++ {
		round(func(p Pending) bool {
			if isProposal(p) {
				return true
			}
			if c.Actors[p.To] == L {
				if tm, ok := p.Msg.(hotstuff.TimeoutMsg); ok && tm.View >= F+1 {
					return true
				}
				if _, ok := p.Msg.(hotstuff.NewViewMsg); ok {
					return true
				}
			}
			return false
		})
	}
	c.FaultSteps++
	if c.Panic != nil || minView(others) != F+2 || L.Node.VS.View() != F+1 {
		return nil
	}
	// whatever of the lost kind is still in flight to L is lost too; the rest stays pending for the suffix
	kept := c.Pool[:0]
	for _, p := range c.Pool {
		if tm, ok := p.Msg.(hotstuff.TimeoutMsg); ok && c.Actors[p.To] == L && tm.View == F+1 {
			continue
		}
		kept = append(kept, p)
	}
	c.Pool = kept
	return L
}

// runPrefixNoByz runs the scheduler with scripted actors silent (they model crash/silent faults in C05).
func (c *Cluster) runPrefixNoByz() {
	saved := c.Cfg.Steps
	_ = saved
	c.Start()
	lock := c.Cfg.Profile == "twins-lockstep"
	w := stepWeights(c.Cfg.Profile, c.Cfg.Intensity)
	w[3] = 0 // no byz actions
	w[6] = 0 // crashes are predetermined
	for c.Step = 1; c.Step <= c.Cfg.Steps && c.Panic == nil; c.Step++ {
		c.cmd.topUp()
		if lock {
			c.lockstepRound(nil)
			if c.Rng.Chance(1, 5) {
				groups := make([]int, len(c.Actors))
				for i := range groups {
					groups[i] = c.Rng.Intn(2)
				}
				c.SetPartition(groups)
			}
			continue
		}
		switch kind := c.Rng.Weighted(w); kind {
		case 0, 1:
			idx := c.deliverable()
			if len(idx) == 0 {
				c.timeoutSomeone()
				break
			}
			k := idx[c.Rng.Intn(len(idx))]
			if kind == 1 {
				c.deliver(c.Pool[k])
			} else {
				c.deliver(c.removePool(k))
			}
		case 2:
			c.timeoutSomeone()
		case 4:
			groups := make([]int, len(c.Actors))
			for i := range groups {
				groups[i] = c.Rng.Intn(2)
			}
			c.SetPartition(groups)
		case 5:
			c.Heal()
		}
	}
}

// c05FaultFree: in a fault-free synchronous run every view extends the chain by a certified block
// and commits trail the newest block by exactly the commit-chain length.
func c05FaultFree(p vbase.Params, r *vbase.Result) {
	r.Rule = "fault-free lock-step runs of V in {12,30} views (3 rulesets x n in {4,7} x leaders {round-robin, fixed, scripted} x schemes): every view 1..V has exactly one block, certified by its successor, " +
		"no timeout-driven view change, and when a replica has handled the proposal of view v its committed block has view v-ChainLength (v > ChainLength); non-trivial: every run (>=4 replicas); distinct: configuration"
	idx := 0
	for _, rs := range Rulesets {
		for _, n := range []int{4, 7} {
			for _, leader := range []string{"round-robin", "fixed", "script"} {
				for _, scheme := range []string{crypto.NameEDDSA, crypto.NameECDSA, crypto.NameBLS12} {
					for _, V := range []int{12, 30} {
						idx++
						if !p.Mine(idx) {
							continue
						}
						if scheme == crypto.NameBLS12 && (V > 12 || n > 4) && !p.Thorough() {
							continue
						}
						rng := vbase.NewRng(p.Seed, "C05.ff", rs, n, leader, scheme, V)
						cfg := Config{N: n, Ruleset: rs, Scheme: scheme, Cache: uint([]int{0, 100}[idx%2]), Leader: leader, BatchSize: uint32(1 + idx%2), Profile: "fault-free-sync", ByzRules: map[hotstuff.ID]string{}}
						if leader == "script" {
							for k := 0; k < 2*n; k++ {
								cfg.Sched = append(cfg.Sched, hotstuff.ID(rng.Range(1, n)))
							}
						}
						c, err := NewCluster(cfg, rng, r)
						if err != nil {
							r.Inconclusive(err.Error())
							return
						}
						c.Mon.Commit = true
						c.Start()
						L := c.Actors[0].Node.Rules.ChainLength()
						rep := map[string]any{"config": cfg.String(), "views": V}
						bad := false
						for round := 1; round <= 3*V && !bad && c.Panic == nil; round++ {
							c.cmd.topUp()
							c.Step = round
							c.lockstepRound(nil)
							minView := hotstuff.View(1 << 62)
							for _, a := range c.Actors {
								if v := a.Node.VS.View(); v < minView {
									minView = v
								}
							}
							if int(minView) > V {
								break
							}
						}
						// judge
						timeoutVC := c.Timeouts
						byView := map[hotstuff.View][]*hotstuff.Block{}
						for _, b := range c.W.Blocks.All() {
							byView[b.View()] = append(byView[b.View()], b)
						}
						var reason string
						if timeoutVC > 0 {
							reason = fmt.Sprintf("%d local timeouts fired although every message was delivered before any timer (a view did not end by a certificate)", timeoutVC)
						}
						for v := 1; v <= V && reason == ""; v++ {
							bl := byView[hotstuff.View(v)]
							if len(bl) != 1 {
								reason = fmt.Sprintf("view %d has %d blocks", v, len(bl))
								break
							}
							if v > 1 {
								prev := byView[hotstuff.View(v-1)]
								if len(prev) == 1 && (bl[0].QuorumCert().BlockHash() != prev[0].Hash() || bl[0].Parent() != prev[0].Hash()) {
									reason = fmt.Sprintf("the block of view %d does not certify and extend the block of view %d", v, v-1)
								}
							}
						}
						if reason == "" {
							for _, a := range c.Actors {
								// highest block the replica has stored = newest proposal it handled
								top := hotstuff.View(0)
								for _, b := range c.W.Blocks.All() {
									if _, ok := a.M.Chain.LocalGet(b.Hash()); ok && b.View() > top {
										top = b.View()
									}
								}
								cv := a.Node.VS.CommittedBlock().View()
								if int(top) > L && cv != top-hotstuff.View(L) {
									reason = fmt.Sprintf("%s handled the proposal of view %d but its committed block has view %d (expected %d = view - chain length %d)", a.Name(), top, cv, int(top)-L, L)
									break
								}
							}
						}
						r.Eval(true, cfg.String()+fmt.Sprint(V))
						r.Obs("fault_free_runs", 1)
						r.Obs("views_run", int64(V))
						if reason != "" && c.Panic == nil {
							r.Violate(vbase.Sig("fault-free", "ruleset", rs, "what", firstWord(reason)), fmt.Sprintf("fault-free synchronous run of %d views: %s [%s]", V, reason, cfg.String()), rep)
							bad = true
						}
						if r.WantSample() {
							r.Sample(c.Summary())
						}
						c.Close()
					}
				}
			}
		}
	}
}

func firstWord(s string) string {
	for i, ch := range s {
		if ch == ' ' && i > 0 {
			w := s[:i]
			if w[0] >= '0' && w[0] <= '9' {
				return "timeouts"
			}
			return w
		}
	}
	return s
}

var _ = rules.NameFastHotStuff
