package vsim

import (
	"fmt"
	"os"
	"runtime"
	"strings"
	"time"

	"github.com/relab/hotstuff"
	"github.com/relab/hotstuff/protocol/rules"
	"github.com/relab/hotstuff/protocol/rules/byzantine"
	"github.com/relab/hotstuff/security/crypto"
	"github.com/relab/hotstuff/verif/vbase"
	"github.com/relab/hotstuff/verif/vk"
)

var Rulesets = []string{rules.NameChainedHotStuff, rules.NameSimpleHotStuff, rules.NameFastHotStuff}

// Profiles of scheduler behaviour.
var Profiles = []string{"twins-lockstep", "async-chaos", "byz-leader", "partition-heal", "fault-free-sync"}

// GenConfig draws a configuration for one execution.
func GenConfig(rng *vbase.Rng, profile string) Config {
	cfg := Config{Profile: profile, Intensity: rng.Intn(3)}
	cfg.N = []int{4, 4, 4, 7}[rng.Intn(4)]
	cfg.Ruleset = Rulesets[rng.Intn(3)]
	switch rng.Intn(8) {
	case 0:
		cfg.Scheme = crypto.NameECDSA
	case 1:
		cfg.Scheme = crypto.NameBLS12
	default:
		cfg.Scheme = crypto.NameEDDSA
	}
	cfg.Cache = []uint{0, 100}[rng.Intn(2)]
	cfg.BatchSize = uint32(rng.Range(1, 3))
	cfg.Leader = []string{"round-robin", "round-robin", "script", "fixed"}[rng.Intn(4)]
	if cfg.Leader == "script" {
		l := rng.Range(cfg.N, 3*cfg.N)
		for i := 0; i < l; i++ {
			cfg.Sched = append(cfg.Sched, hotstuff.ID(rng.Range(1, cfg.N)))
		}
	}
	f := vk.RefFaulty(cfg.N)
	cfg.Steps = rng.Range(120, 500)
	if cfg.Scheme == crypto.NameBLS12 {
		cfg.Steps = rng.Range(60, 160)
	}
	if profile == "twins-lockstep" || profile == "fault-free-sync" {
		cfg.Steps = rng.Range(15, 60) // rounds, each delivering everything pending
	}
	cfg.ByzRules = map[hotstuff.ID]string{}
	if profile == "fault-free-sync" {
		return cfg
	}
	cfg.FetchLoss = []int{0, 0, 15, 40}[rng.Intn(4)]
	cfg.RogueKey = cfg.Scheme == crypto.NameBLS12 && rng.Bool()
	// place at most f faulty replicas
	perm := rng.Perm(cfg.N)
	nf := rng.Range(0, f)
	if profile == "byz-leader" {
		nf = f
	}
	for k := 0; k < nf; k++ {
		id := hotstuff.ID(perm[k] + 1)
		kinds := []int{4, 3, 1} // scripted, twin, byzrules
		if profile == "twins-lockstep" {
			kinds = []int{0, 5, 1}
		}
		if profile == "byz-leader" {
			kinds = []int{5, 1, 1}
		}
		switch rng.Weighted(kinds) {
		case 0:
			cfg.Scripted = append(cfg.Scripted, id)
		case 1:
			cfg.Twins = append(cfg.Twins, id)
		default:
			cfg.ByzRules[id] = []string{byzantine.NameFork, byzantine.NameIncreaseView, byzantine.NameSilentProposer}[rng.Intn(3)]
		}
	}
	if profile == "byz-leader" && len(cfg.Scripted) > 0 && cfg.Leader == "script" {
		// make the scripted actor a frequent leader
		for i := range cfg.Sched {
			if rng.Chance(1, 3) {
				cfg.Sched[i] = cfg.Scripted[0]
			}
		}
	}
	return cfg
}

// stepWeights: deliver, duplicate-deliver, timeout, byz, partition, heal, crash (per mille).
// intensity 0 (calm) .. 2 (hostile) scales the fault steps so that executions range from "commits
// almost every view" to "hardly ever commits".
func stepWeights(profile string, intensity int) []int {
	k := []int{1, 3, 8}[intensity]
	switch profile {
	case "async-chaos":
		return []int{1000, 10 * k, 6 * k, 10 * k, 3 * k, 4 * k, k / 2}
	case "byz-leader":
		return []int{1000, 5 * k, 5 * k, 40 * k, k, 2 * k, 0}
	case "partition-heal":
		return []int{1000, 5 * k, 8 * k, 6 * k, 10 * k, 10 * k, k / 2}
	}
	return []int{1000, 0, 5, 5, 0, 0, 0}
}

// hangSite extracts the innermost repository frame of the simulator goroutine (goroutine 1) from a dump.
func hangSite(dump string) string {
	i := strings.Index(dump, "goroutine 1 [")
	if i < 0 {
		return "unknown"
	}
	for _, ln := range strings.Split(dump[i:], "\n") {
		if strings.HasPrefix(ln, "goroutine ") && !strings.HasPrefix(ln, "goroutine 1 [") {
			break
		}
		if strings.HasPrefix(ln, "github.com/relab/hotstuff/") && !strings.Contains(ln, "/verif/") {
			fn := ln
			if k := strings.LastIndex(fn, "("); k > 0 {
				fn = fn[:k]
			}
			return strings.TrimPrefix(fn, "github.com/relab/hotstuff/")
		}
	}
	return "harness"
}

// Run executes the scheduler for cfg.Steps steps (or until a panic).
func (c *Cluster) Run() {
	// wall-clock watchdog around every execution: a stuck step (the single simulator thread blocked or spinning
	// inside the code under test) is reported with the trace that led to it; firing is INCONCLUSIVE, not a verdict,
	// unless the thread is found inside repository code (then the site is reported as a hang).
	done := make(chan struct{})
	defer close(done)
	go func() {
		t := time.NewTimer(300 * time.Second)
		defer t.Stop()
		select {
		case <-done:
		case <-t.C:
			buf := make([]byte, 1<<16)
			buf = buf[:runtime.Stack(buf, true)]
			tail := c.Trace
			if len(tail) > 40 {
				tail = tail[len(tail)-40:]
			}
			fmt.Fprintf(os.Stderr, "WATCHDOG: execution stuck for 60s at step %d\nconfig: %s\ntrace tail: %+v\n%s\n", c.Step, c.Cfg.String(), tail, buf)
			site := hangSite(string(buf))
			if c.OnHang != nil {
				c.OnHang(site, tail) // records the outcome and writes the shard's result file
			}
			os.Exit(7)
		}
	}()
	c.Start()
	lock := c.Cfg.Profile == "twins-lockstep" || c.Cfg.Profile == "fault-free-sync"
	var scripted []*Actor
	for _, a := range c.Actors {
		if a.Kind == Scripted {
			scripted = append(scripted, a)
		}
	}
	crashBudget := vk.RefFaulty(c.Cfg.N) - len(c.faultyIDs())
	w := stepWeights(c.Cfg.Profile, c.Cfg.Intensity)
	for c.Step = 1; c.Step <= c.Cfg.Steps && c.Panic == nil; c.Step++ {
		c.cmd.topUp()
		if lock {
			c.lockstepRound(scripted)
		} else {
			kind := c.Rng.Weighted(w)
			switch kind {
			case 0, 1:
				idx := c.deliverable()
				if len(idx) == 0 {
					// nothing can move: some timer fires
					c.timeoutSomeone()
					break
				}
				// bias towards older messages, but any order is possible
				k := idx[c.Rng.Intn(len(idx))]
				if c.Rng.Chance(1, 2) {
					k = idx[c.Rng.Intn(min(len(idx), 4))]
				}
				if kind == 1 {
					c.Dups++
					c.FaultSteps++
					c.deliver(c.Pool[k])
				} else {
					c.deliver(c.removePool(k))
				}
			case 2:
				c.FaultSteps++
				c.timeoutSomeone()
			case 3:
				if len(scripted) > 0 {
					c.FaultSteps++
					a := scripted[c.Rng.Intn(len(scripted))]
					c.ByzAct(a, c.pickByz())
				}
			case 4:
				c.FaultSteps++
				groups := make([]int, len(c.Actors))
				for i := range groups {
					groups[i] = c.Rng.Intn(2)
				}
				c.SetPartition(groups)
			case 5:
				c.Heal()
			case 6:
				if crashBudget > 0 {
					var hs []*Actor
					for _, a := range c.Actors {
						if a.Kind == Honest && !a.Crashed {
							hs = append(hs, a)
						}
					}
					if len(hs) > 0 {
						c.Crash(hs[c.Rng.Intn(len(hs))])
						crashBudget--
						c.FaultSteps++
					}
				}
			}
		}
		c.Mon.afterStep()
		if len(c.Mon.Viol) > 0 {
			break
		}
	}
	c.Mon.atEnd()
}

func (c *Cluster) pickByz() string {
	a := byzActions[c.Rng.Intn(len(byzActions))]
	if !c.Cfg.NilSigs {
		return a
	}
	return a
}

func (c *Cluster) timeoutSomeone() {
	var live []*Actor
	for _, a := range c.Actors {
		if a.Node != nil && !a.Crashed {
			live = append(live, a)
		}
	}
	if len(live) == 0 {
		return
	}
	c.LocalTimeout(live[c.Rng.Intn(len(live))])
}

// lockstepRound reproduces what twins.Network.run does: deliver everything that is pending, in order;
// if nothing was pending, every timer fires. Scripted actors act once per round.
func (c *Cluster) lockstepRound(scripted []*Actor) {
	batch := c.Pool
	c.Pool = nil
	progressed := false
	for _, p := range batch {
		to, from := c.Actors[p.To], c.Actors[p.From]
		if to.Crashed {
			continue
		}
		if !c.linkOpen(from, to) {
			c.Pool = append(c.Pool, p)
			continue
		}
		progressed = true
		c.deliver(p)
		if c.Panic != nil {
			return
		}
	}
	for _, a := range scripted {
		if c.Rng.Chance(1, 3) {
			c.ByzAct(a, c.pickByz())
			c.FaultSteps++
		}
	}
	if c.Cfg.Profile == "twins-lockstep" && !c.NoFaults && c.Rng.Chance(1, 6) {
		// Twins-style per-round partition
		groups := make([]int, len(c.Actors))
		for i := range groups {
			groups[i] = c.Rng.Intn(2)
		}
		if c.Rng.Bool() {
			c.Heal()
		} else {
			c.SetPartition(groups)
			c.FaultSteps++
		}
	}
	if !progressed {
		for _, a := range c.Actors {
			if a.Node != nil && !a.Crashed {
				c.LocalTimeout(a)
				c.FaultSteps++
			}
		}
	}
}

// boundedDelayRound is a synchronous round with bounded, unequal message delays: every pending message is delivered
// in this round or - at most once - in the next one (so within two rounds of being sent), each link stays FIFO, and the
// messages of different links are interleaved in a PRNG order. A vote can thus reach the next leader before the proposal
// it answers. Timers fire only when nothing at all is in flight, and not all in the same round.
func (c *Cluster) boundedDelayRound(jr *vbase.Rng, slowProposals bool) {
	batch := c.Pool
	c.Pool = nil
	type link struct{ from, to int }
	holdLink := map[link]bool{}
	var held, late []Pending
	queues := map[link][]Pending{}
	var links []link
	for _, p := range batch {
		if c.Actors[p.To].Crashed {
			continue
		}
		l := link{p.From, p.To}
		hold := !p.Held && jr.Chance(1, 3)
		if slowProposals {
			// an adversarial choice inside the same bound: the copy of every proposal that goes to the leader of the next view
			// is the slow one, and a message that was slow is handled after the round's other messages
			hold = false
			if pm, ok := p.Msg.(hotstuff.ProposeMsg); ok && pm.Block != nil && !p.Held {
				hold = c.publicLeader(pm.Block.View()+1) == c.Actors[p.To].ID
			}
			if p.Held && !holdLink[l] {
				late = append(late, p)
				continue
			}
		}
		if holdLink[l] || hold {
			// everything behind a held message on the same link waits with it
			holdLink[l] = true
			p.Held = true
			held = append(held, p)
			continue
		}
		if _, ok := queues[l]; !ok {
			links = append(links, l)
		}
		queues[l] = append(queues[l], p)
	}
	for len(links) > 0 {
		k := jr.Intn(len(links))
		l := links[k]
		p := queues[l][0]
		queues[l] = queues[l][1:]
		if len(queues[l]) == 0 {
			links = append(links[:k], links[k+1:]...)
		}
		if !c.linkOpen(c.Actors[p.From], c.Actors[p.To]) {
			held = append(held, p)
			continue
		}
		c.deliver(p)
		if c.Panic != nil {
			return
		}
	}
	for _, p := range late {
		if !c.linkOpen(c.Actors[p.From], c.Actors[p.To]) {
			held = append(held, p)
			continue
		}
		c.deliver(p)
		if c.Panic != nil {
			return
		}
	}
	c.Pool = append(held, c.Pool...)
	// timers of different replicas do not expire at the same instant: when nothing is in flight a PRNG-chosen non-empty
	// subset fires in this round and the others one round later, after that round's deliveries - unless their timer
	// was restarted meanwhile (the replica changed view)
	if len(c.lateTimers) > 0 {
		late := c.lateTimers
		c.lateTimers = nil
		for _, lt := range late {
			if lt.a.Node != nil && !lt.a.Crashed && lt.a.Node.TimerView() == lt.view {
				c.LocalTimeout(lt.a)
				c.FaultSteps++
			}
		}
		return
	}
	if len(batch) == 0 {
		var live []*Actor
		for _, a := range c.Actors {
			if a.Node != nil && !a.Crashed {
				live = append(live, a)
			}
		}
		first := map[int]bool{}
		if c.staggerFirst != nil {
			for i, a := range live {
				if a == c.staggerFirst {
					first[i] = true
				}
			}
			c.staggerFirst = nil
		}
		if len(first) == 0 {
			if len(live) > 0 {
				first[jr.Intn(len(live))] = true
			}
			for i := range live {
				if jr.Bool() {
					first[i] = true
				}
			}
		}
		for _, i := range jr.Perm(len(live)) {
			a := live[i]
			if first[i] {
				c.LocalTimeout(a)
				c.FaultSteps++
			} else {
				c.lateTimers = append(c.lateTimers, lateTimer{a, a.Node.TimerView()})
			}
		}
	}
}

type lateTimer struct {
	a    *Actor
	view hotstuff.View
}

// afterStep runs the end-of-step monitors.
func (m *Monitors) afterStep() {
	m.checkPrefix()
	m.checkVotes()
	m.checkExecStep()
	if m.c.Panic != nil {
		m.violate("C10", "panic:"+m.c.PanicAt, "panic in a replica: %v (%s)", m.c.Panic, m.c.PanicAt)
	}
}

func (m *Monitors) atEnd() {
	m.checkPrefix()
	m.checkVotes()
	m.checkExecEnd()
	m.checkStoredBlocks()
	m.evidence.update()
	m.Obs["unclassified_signatures"] += int64(m.unclassified + m.evidence.unclassified)
}

// TraceSig is the signature used for distinct-trace accounting.
func (c *Cluster) TraceSig() string {
	var sb strings.Builder
	sb.WriteString(c.Cfg.String())
	for _, e := range c.Trace {
		fmt.Fprintf(&sb, "|%s:%s>%s:%s:%d", e.Kind, e.From, e.To, e.What, e.View)
	}
	return sb.String()
}

// Summary describes the execution for evidence samples.
func (c *Cluster) Summary() map[string]any {
	commits := map[string]int{}
	views := map[string]uint64{}
	for _, a := range c.Actors {
		if a.Node != nil {
			commits[a.Name()] = len(c.Mon.commits[a.Idx])
			views[a.Name()] = uint64(a.Node.VS.View())
		}
	}
	head := c.Trace
	if len(head) > 14 {
		head = head[:14]
	}
	return map[string]any{"config": c.Cfg.String(), "steps": c.Step - 1, "delivered": c.Delivered, "timeouts": c.Timeouts, "byz_actions": c.ByzActs,
		"partition_changes": c.PartChanges, "crashes": c.Crashes, "duplicates": c.Dups, "dropped": c.Dropped, "commits": commits, "final_views": views, "trace_head": head}
}
