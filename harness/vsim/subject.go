package vsim

import (
	"fmt"

	"github.com/relab/hotstuff"
	"github.com/relab/hotstuff/protocol/rules"
	"github.com/relab/hotstuff/security/crypto"
	"github.com/relab/hotstuff/verif/vbase"
	"github.com/relab/hotstuff/verif/vk"
)

// Engine B: one fully wired real replica (the subject, id 1) plus n-1 puppets whose keys the
// harness holds, so that it can also manufacture genuinely valid certificates, votes and timeouts
// for any block or view (world states other honest replicas could have produced). The "<= f faulty"
// restriction is deliberately lifted: the properties served here (C08, C09) are statements about one
// replica's local behaviour for any input.

func init() {
	vk.Register("C08.sync", c08Sync)
}

// NewSubject builds a cluster with replica 1 honest and everybody else a puppet.
func NewSubject(n int, ruleset, scheme string, cache uint, leader string, sched []hotstuff.ID, rng *vbase.Rng, r *vbase.Result) (*Cluster, *Actor, error) {
	cfg := Config{N: n, Ruleset: ruleset, Scheme: scheme, Cache: cache, Leader: leader, Sched: sched, BatchSize: 1, Profile: "subject", ByzRules: map[hotstuff.ID]string{}}
	for id := 2; id <= n; id++ {
		cfg.Puppets = append(cfg.Puppets, hotstuff.ID(id))
	}
	c, err := NewCluster(cfg, rng, r)
	if err != nil {
		return nil, nil, err
	}
	return c, c.Actors[0], nil
}

// inject delivers msg to the subject as coming from puppet `from` (the server's identity rule applies).
func (c *Cluster) inject(from hotstuff.ID, subj *Actor, msg any) {
	c.cmd.topUp()
	msg = viaServer(from, msg)
	kind, view := msgKind(msg)
	c.trace(TraceEntry{Kind: "inject", From: fmt.Sprintf("r%d", from), To: subj.Name(), What: kind, View: view})
	c.Delivered++
	if pm, ok := msg.(hotstuff.ProposeMsg); ok && pm.Block != nil {
		c.W.Blocks.Add(pm.Block)
	}
	pan, site := subj.Node.Deliver(msg, 10000)
	if pan != nil {
		c.Panic, c.PanicAt = pan, fmt.Sprintf("%s while the subject handled %s from r%d", site, kind, from)
	}
	c.Mon.afterHandle(subj)
}

// takeSent removes and returns what the subject has sent since the last call.
func (c *Cluster) takeSent(subj *Actor) []Pending {
	var out, rest []Pending
	for _, p := range c.Pool {
		if p.From == subj.Idx {
			out = append(out, p)
		} else {
			rest = append(rest, p)
		}
	}
	c.Pool = rest
	return out
}

// honestTimeout lets puppet id really time out in view v.
func (c *Cluster) honestTimeout(id hotstuff.ID, v hotstuff.View, si hotstuff.SyncInfo, withMsgSig bool) hotstuff.TimeoutMsg {
	m := c.W.M(id)
	vs, err := m.Auth.Sign(v.ToBytes())
	if err != nil {
		panic(err)
	}
	tm := hotstuff.TimeoutMsg{ID: id, View: v, ViewSignature: vs, SyncInfo: si}
	if withMsgSig {
		ms, err := m.Auth.Sign(tm.ToBytes())
		if err != nil {
			panic(err)
		}
		tm.MsgSignature = ms
	}
	return tm
}

func signedBy(sig hotstuff.QuorumSignature, id hotstuff.ID) bool {
	if sig == nil {
		return false
	}
	p := sig.Participants()
	return p.Len() == 1 && p.Contains(id)
}

func c08Sync(p vbase.Params, r *vbase.Result) {
	r.Rule = "one real replica (subject) + n-1 puppets (n in {4,7}), simple and aggregate timeout rule, subject moved to a start view by genuine certificates, then a PRNG interleaving of timeout messages over views {cur-1..cur+2, cur+5}: " +
		"genuine, duplicates, far-future, view signature of ANOTHER replica, garbage signature, missing/foreign message signature (aggregate rule), a sender's own timeout under a CLAIMED identity (another replica's or the subject's own - without TLS the identity is request metadata), another replica's genuine timeout relayed under its signer's identity, and the subject's own local timeouts; all carry only the genesis QC, so every view " +
		"change is timeout-driven; model: per view the set of distinct senders whose message is correctly signed BY THE SENDER; judged after every message: subject leaves a view only if the model holds a quorum for a view >= it, " +
		"subject has left view v as soon as the model holds a quorum for v, the TC/AggQC it then sends verifies at another replica's real authority and at the ground-truth oracle and names only counted senders; " +
		"non-trivial: sequence mixing >= 2 views; distinct: the message sequence"
	n := p.N(16000, 600000)
	for i := 0; i < n; i++ {
		rng := vbase.NewRng(p.Seed, "C08.sync", p.Shard, p.NShards, i)
		nn := []int{4, 7}[rng.Intn(2)]
		agg := rng.Bool()
		ruleset := rules.NameChainedHotStuff
		if agg {
			ruleset = rules.NameFastHotStuff
		}
		scheme := crypto.NameEDDSA
		switch rng.Intn(10) {
		case 0:
			scheme = crypto.NameECDSA
		case 1:
			scheme = crypto.NameBLS12
		}
		// the subject never leads (fixed leader 2): all its certificates leave through NewView messages
		c, subj, err := NewSubject(nn, ruleset, scheme, uint([]int{0, 100}[rng.Intn(2)]), "script", []hotstuff.ID{2}, rng, r)
		if err != nil {
			r.Inconclusive(err.Error())
			return
		}
		c.Mon.Pace = false
		c.Start()
		q := c.W.Q()
		genQC := hotstuff.NewQuorumCert(nil, 0, hotstuff.GetGenesis().Hash())
		si := hotstuff.NewSyncInfoWith(genQC)
		fail := func(rule, format string, a ...any) {
			r.Violate(vbase.Sig("timeouts-"+rule, "rule", map[bool]string{true: "aggregate", false: "simple"}[agg], "scheme", scheme),
				fmt.Sprintf(format, a...)+fmt.Sprintf(" [n=%d q=%d %s]", nn, q, c.Cfg.String()),
				map[string]any{"engine": "subject", "seed": p.Seed, "shard": p.Shard, "nshards": p.NShards, "case": i, "trace": c.Trace})
		}
		// move the subject to a start view with a genuine TC (world state other honest replicas produced)
		start := hotstuff.View(rng.Range(1, 6))
		if start > 1 {
			tms := c.W.HonestTimeouts(start-1, vk.IDs(nn)[1:q+1], func(hotstuff.ID) hotstuff.QuorumCert { return genQC }, agg)
			tc, err := c.W.M(2).Auth.CreateTimeoutCert(start-1, tms)
			if err == nil {
				s2 := hotstuff.NewSyncInfoWith(tc)
				if agg {
					if ag, err := c.W.M(2).Auth.CreateAggregateQC(start-1, tms); err == nil {
						s2.SetAggQC(ag)
					}
				}
				c.inject(2, subj, hotstuff.NewViewMsg{ID: 2, SyncInfo: s2})
			}
		}
		c.takeSent(subj)
		counted := map[hotstuff.View]map[hotstuff.ID]bool{}
		genuine := map[hotstuff.View][]hotstuff.TimeoutMsg{} // genuine timeouts delivered, for the BLS library-defect discriminator
		aggDefect := func(v hotstuff.View) bool {
			if scheme != crypto.NameBLS12 || !agg || len(genuine[v]) < 2 {
				return false
			}
			ag, err := c.W.M(2).Auth.CreateAggregateQC(v, genuine[v])
			if err != nil {
				return false
			}
			return c.W.LibraryDefect(ag.Sig(), func(id hotstuff.ID) []byte {
				qc, ok := ag.QCs()[id]
				if !ok {
					return nil
				}
				return hotstuff.TimeoutMsg{ID: id, View: ag.View(), SyncInfo: hotstuff.NewSyncInfoWith(qc)}.ToBytes()
			})
		}
		viewsUsed := map[hotstuff.View]bool{}
		steps := rng.Range(4, 40)
		bad := false
		for s := 0; s < steps && !bad && c.Panic == nil; s++ {
			cur := subj.Node.VS.View()
			var tv hotstuff.View
			switch rng.Intn(8) {
			case 0:
				if cur > 1 {
					tv = cur - 1
				} else {
					tv = cur
				}
			case 1, 2, 3, 4:
				tv = cur
			case 5:
				tv = cur + 1
			case 6:
				tv = cur + 2
			default:
				tv = cur + 5
			}
			viewsUsed[tv] = true
			valid := false
			var sender hotstuff.ID
			if rng.Chance(1, 7) {
				// the subject's own timer fires
				sender = 1
				tv = cur
				c.trace(TraceEntry{Kind: "timeout", To: subj.Name(), View: uint64(cur)})
				pan, site := subj.Node.Deliver(hotstuff.TimeoutEvent{View: cur}, 10000)
				if pan != nil {
					c.Panic, c.PanicAt = pan, site
				}
				valid = true
			} else {
				sender = hotstuff.ID(rng.Range(2, nn))
				tm := c.honestTimeout(sender, tv, si, agg)
				kind := rng.Intn(10)
				switch {
				case kind <= 5: // genuine
					valid = true
					if c.W.LibraryDefect(tm.ViewSignature, func(hotstuff.ID) []byte { return tv.ToBytes() }) ||
						(agg && c.W.LibraryDefect(tm.MsgSignature, func(hotstuff.ID) []byte { return tm.ToBytes() })) {
						valid = false // the subject cannot verify it (pairing library defect, vk/blsref.go)
						r.Obs("bls_library_defect_timeouts", 1)
					}
				case kind == 6: // view signature of another replica - alone, or combined behind the sender's own (a timeout carries ONE signature)
					other := hotstuff.ID(2 + (int(sender)-2+1)%(nn-1))
					o := c.honestTimeout(other, tv, si, agg)
					if rng.Bool() || other == sender {
						tm.ViewSignature = o.ViewSignature
					} else if comb, err := c.W.M(sender).Auth.Combine(tm.ViewSignature, o.ViewSignature); err == nil {
						tm.ViewSignature = comb
						if agg && rng.Bool() {
							if mc, err := c.W.M(sender).Auth.Combine(tm.MsgSignature, o.MsgSignature); err == nil {
								tm.MsgSignature = mc
							}
						}
					} else {
						tm.ViewSignature = o.ViewSignature
					}
				case kind == 7: // garbage view signature (signature over another message, or the sender's signature for a view 2^32 / 2^16 later)
					switch rng.Intn(3) {
					case 0:
						g, _ := c.W.M(sender).Auth.Sign([]byte("not the view"))
						tm.ViewSignature = g
					case 1:
						g, _ := c.W.M(sender).Auth.Sign((tv + 1<<32).ToBytes())
						tm.ViewSignature = g
					default:
						g, _ := c.W.M(sender).Auth.Sign((tv + 1<<16).ToBytes())
						tm.ViewSignature = g
					}
				case kind == 8 && agg: // message signature absent / of another replica / over another message
					if rng.Chance(1, 3) {
						tm.MsgSignature = nil // a valid view signature alone is not a timeout message under the aggregate rule
					} else if rng.Bool() {
						other := hotstuff.ID(2 + (int(sender)-2+1)%(nn-1))
						o := c.honestTimeout(other, tv, si, agg)
						tm.MsgSignature = o.MsgSignature
					} else {
						g, _ := c.W.M(sender).Auth.Sign([]byte("not the message"))
						tm.MsgSignature = g
					}
				default:
					valid = true
				}
				// without TLS the server takes the sender's identity from request metadata the sender wrote itself: a hostile
				// sender may claim any identity, also the subject's own. What authenticates a timeout is its signatures.
				switch rng.Intn(12) {
				case 0: // its own genuine timeout under another replica's identity
					claim := hotstuff.ID(rng.Range(1, nn))
					if rng.Bool() {
						claim = 1
					}
					if claim != sender {
						tm = c.honestTimeout(sender, tv, si, agg)
						valid = false
						r.Obs("timeouts_under_a_claimed_identity", 1)
						if claim == 1 {
							r.Obs("timeouts_claiming_the_subjects_identity", 1)
						}
						sender = claim
					}
				case 1: // another replica's genuine timeout, relayed under that replica's identity
					if x := hotstuff.ID(2 + (int(sender)-2+1)%(nn-1)); x != sender {
						tm = c.honestTimeout(x, tv, si, agg)
						valid = true
						if c.W.LibraryDefect(tm.ViewSignature, func(hotstuff.ID) []byte { return tv.ToBytes() }) ||
							(agg && c.W.LibraryDefect(tm.MsgSignature, func(hotstuff.ID) []byte { return tm.ToBytes() })) {
							valid = false
						}
						sender = x
						r.Obs("genuine_timeouts_relayed_under_their_signers_identity", 1)
					}
				}
				if valid {
					genuine[tv] = append(genuine[tv], tm)
				}
				c.inject(sender, subj, tm)
			}
			if c.Panic != nil {
				break
			}
			if valid && tv >= cur {
				if counted[tv] == nil {
					counted[tv] = map[hotstuff.ID]bool{}
				}
				counted[tv][sender] = true
			}
			now := subj.Node.VS.View()
			// (a) a view is left only if the model holds a quorum for a view >= it
			if now > cur {
				okEv := false
				for v, set := range counted {
					if v >= now-1 && len(set) >= q {
						okEv = true
					}
				}
				if !okEv {
					fail("advance-without-quorum", "the subject went from view %d to %d after a timeout for view %d from replica %d (valid=%v), but correctly signed timeouts from a quorum of distinct replicas exist for no view >= %d (counted: %v)",
						cur, now, tv, sender, valid, now-1, countedStr(counted))
					bad = true
				}
			}
			// (b) a quorum of correctly signed timeouts for a view the subject has not left moves it on
			for v, set := range counted {
				if len(set) >= q && v >= cur && now <= v && aggDefect(v) {
					r.Obs("bls_library_defect_cases_skipped", 1)
					bad = true // not judged further
				} else if len(set) >= q && v >= cur && now <= v {
					fail("quorum-ignored", "correctly signed timeouts for view %d from %d distinct replicas %v have arrived (q=%d) but the subject is still in view %d", v, len(set), vk.SortedIDs(set), q, now)
					bad = true
				}
			}
			// (c) what the subject sends must verify elsewhere and be built from counted messages only
			for _, pm := range c.takeSent(subj) {
				nv, ok := pm.Msg.(hotstuff.NewViewMsg)
				if !ok {
					continue
				}
				if tc, ok := nv.SyncInfo.TC(); ok && tc.View() > 0 {
					r.Obs("timeout_certs_emitted", 1)
					verd, signers := c.W.TrueTC(tc)
					if err := c.W.M(2).Auth.VerifyTimeoutCert(tc); err != nil && verd != vk.MustReject && c.W.LibraryDefect(tc.Signature(), func(hotstuff.ID) []byte { return tc.View().ToBytes() }) {
						r.Obs("bls_library_defect_cases_skipped", 1)
					} else if err != nil || verd == vk.MustReject {
						fail("emitted-tc-invalid", "the timeout certificate for view %d sent by the subject does not verify at replica 2 (%v; ground truth: %s, real signers %v)", tc.View(), err, verd, vk.SortedIDs(signers))
						bad = true
					}
					tc.Signature().Participants().ForEach(func(id hotstuff.ID) {
						if !counted[tc.View()][id] {
							fail("emitted-tc-foreign-signer", "the timeout certificate for view %d names replica %d, from which no correctly signed timeout for that view was received (counted %v)", tc.View(), id, vk.SortedIDs(counted[tc.View()]))
							bad = true
						}
					})
				}
				if ag, ok := nv.SyncInfo.AggQC(); ok {
					r.Obs("aggregate_certs_emitted", 1)
					verd, signers, best := c.W.TrueAggQC(ag)
					high, err := safeVerifyAgg(c.W.M(2), ag)
					if err != nil && verd != vk.MustReject && scheme == crypto.NameBLS12 {
						r.Obs("bls_library_defect_cases_skipped", 1)
					} else if err != nil || verd == vk.MustReject {
						fail("emitted-aggqc-invalid", "the aggregate certificate (claimed view %d) sent by the subject does not verify at replica 2 (%v; ground truth: %s, %d real signers)", ag.View(), err, verd, len(signers))
						bad = true
					} else if best != nil && high.View() != best.View() {
						fail("emitted-aggqc-highqc", "high QC of the emitted aggregate certificate has view %d, highest valid attested QC has view %d", high.View(), best.View())
						bad = true
					}
				}
			}
		}
		if c.Panic != nil {
			r.Obs("panics_judged_under_C10", 1)
			r.Note("panic while handling a timeout (judged under C10): %v at %s", c.Panic, c.PanicAt)
		}
		r.Eval(len(viewsUsed) >= 2, c.TraceSig())
		r.Obs("messages_injected", int64(c.Delivered))
		if len(viewsUsed) >= 2 && r.WantSample() {
			r.Sample(map[string]any{"n": nn, "rule": map[bool]string{true: "aggregate", false: "simple"}[agg], "scheme": scheme, "start_view": uint64(start), "final_view": uint64(subj.Node.VS.View()), "trace": c.Trace})
		}
		c.Close()
	}
}

func safeVerifyAgg(m *vk.Member, ag hotstuff.AggregateQC) (qc hotstuff.QuorumCert, err error) {
	defer func() {
		if e := recover(); e != nil {
			err = fmt.Errorf("panic: %v", e)
		}
	}()
	return m.Auth.VerifyAggregateQC(ag)
}

func countedStr(c map[hotstuff.View]map[hotstuff.ID]bool) string {
	s := ""
	for v, set := range c {
		s += fmt.Sprintf("v%d:%v ", v, vk.SortedIDs(set))
	}
	return s
}
