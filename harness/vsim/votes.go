package vsim

import (
	"fmt"
	"os"
	"runtime"
	"sync"
	"time"

	"github.com/relab/hotstuff"
	"github.com/relab/hotstuff/core/eventloop"
	"github.com/relab/hotstuff/protocol/rules"
	"github.com/relab/hotstuff/protocol/votingmachine"
	"github.com/relab/hotstuff/security/crypto"
	"github.com/relab/hotstuff/verif/vbase"
	"github.com/relab/hotstuff/verif/vk"
)

func init() {
	vk.Register("C09.clique", func(p vbase.Params, r *vbase.Result) { c09Clique(p, r, false) })
	vk.Register("C09.async", func(p vbase.Params, r *vbase.Result) { c09Clique(p, r, true) })
}

type voteItem struct {
	From  hotstuff.ID
	Kind  string
	PC    hotstuff.PartialCert
	Real  []hotstuff.ID // replicas with a genuine signature over B inside this vote
	Plain bool          // genuine single-signer vote for B by From
}

// c09Clique: the subject is the next leader and collects votes for a block B proposed by a puppet.
func c09Clique(p vbase.Params, r *vbase.Result, async bool) {
	mode := "synchronous verification; exhaustive arrival orders of the honest votes for n=4, random for n=7"
	if async {
		mode = "ASYNCHRONOUS verification (goroutine per vote, PRNG yields inside signature verification, race detector on); judged at quiescence (no verification in flight, voting-machine mutex free, event loop drained)"
	}
	r.Rule = "real VotingMachine inside a fully wired replica that is the next leader; block B (newer than its high QC) proposed by a puppet; the other replicas' genuine votes arrive in varying orders, before or after B itself " +
		"(deferred-vote and block-fetch paths), mixed with hostile votes: duplicates, signature over another message labelled with B's hash, votes for another/unknown/stale block, multi-signer and repeated-signer partial " +
		"certificates, BLS empty-participant/infinity signature, vote carrying another replica's signature, the sender's signature labelled with another replica's id (also the collector's own, which may not have voted); " + mode + "; oracle: S1 = replicas whose genuine single-signer vote arrived, S2 = replicas with a genuine " +
		"signature over B in any arrived vote; |S1|>=q => a QC for B must have been produced; |S2|<q => none; every produced QC passes the ground-truth oracle, verifies at another replica and names only S2; " +
		"non-trivial: >=1 hostile vote or votes before the block; distinct: (arrival order, hostile mix)"
	cases := p.N(24000, 800000)
	if async {
		cases = p.N(2400, 60000)
	}
	dbg := -1
	if v := os.Getenv("VERIF_DEBUG_CASE"); v != "" {
		fmt.Sscan(v, &dbg)
	}
	for i := 0; i < cases; i++ {
		if dbg >= 0 && i != dbg {
			continue
		}
		rng := vbase.NewRng(p.Seed, "C09.clique", async, p.Shard, p.NShards, i)
		nn := []int{4, 4, 7}[rng.Intn(3)]
		scheme := crypto.NameEDDSA
		switch rng.Intn(8) {
		case 0:
			scheme = crypto.NameECDSA
		case 1, 2:
			scheme = crypto.NameBLS12
		}
		ruleset := []string{rules.NameChainedHotStuff, rules.NameSimpleHotStuff}[rng.Intn(2)]
		// leaders: view 1 -> puppet 2 (proposes B), view 2 -> subject (collects the votes for B)
		cfg := Config{N: nn, Ruleset: ruleset, Scheme: scheme, Cache: uint([]int{0, 100}[rng.Intn(2)]), Leader: "script", Sched: []hotstuff.ID{2, 1}, BatchSize: 1,
			Profile: "subject-votes", ByzRules: map[hotstuff.ID]string{}, Async: async}
		for id := 2; id <= nn; id++ {
			cfg.Puppets = append(cfg.Puppets, hotstuff.ID(id))
		}
		c, err := NewCluster(cfg, rng, r)
		if err != nil {
			r.Inconclusive(err.Error())
			return
		}
		subj := c.Actors[0]
		subj.M.Logger.Keep = 120
		if dbg >= 0 {
			subj.M.Logger.Keep = 300
			defer func() {
				for _, l := range subj.M.Logger.Tail() {
					fmt.Fprintln(os.Stderr, l)
				}
			}()
		}
		q := c.W.Q()
		var qcs []hotstuff.QuorumCert
		var qmu sync.Mutex
		eventloop.Register(subj.M.EL, func(m hotstuff.NewViewMsg) {
			if qc, ok := m.SyncInfo.QC(); ok && !m.FromNetwork {
				qmu.Lock()
				qcs = append(qcs, qc)
				qmu.Unlock()
			}
		}, eventloop.Prioritize())
		if async {
			yr := vbase.NewRng(p.Seed, "C09.yield", p.Shard, i)
			var ymu sync.Mutex
			subj.M.Rec.Yield = func() {
				ymu.Lock()
				k := yr.Intn(4)
				ymu.Unlock()
				switch k {
				case 0:
					runtime.Gosched()
				case 1:
					time.Sleep(time.Duration(20) * time.Microsecond)
				}
			}
		}
		c.Start()
		genQC := hotstuff.NewQuorumCert(nil, 0, hotstuff.GetGenesis().Hash())
		B := hotstuff.NewBlock(hotstuff.GetGenesis().Hash(), genQC, vk.Batch(50, 1, 1), 1, 2)
		other := hotstuff.NewBlock(hotstuff.GetGenesis().Hash(), genQC, vk.Batch(51, 1, 1), 1, 2) // sibling, same view
		unknown := hotstuff.NewBlock(hotstuff.GetGenesis().Hash(), genQC, vk.Batch(52, 1, 1), 1, 2)
		c.W.Blocks.Add(B)
		c.W.Blocks.Add(other)
		c.Actors[1].Byz.serve[B.Hash()] = B
		c.Actors[1].Byz.serve[other.Hash()] = other
		// build the vote list
		var items []voteItem
		honest := rng.Range(0, nn-1) // how many puppets vote honestly
		perm := rng.Perm(nn - 1)
		for k := 0; k < honest; k++ {
			id := hotstuff.ID(perm[k] + 2)
			pc, err := c.W.M(id).Auth.CreatePartialCert(B)
			if err != nil {
				panic(err)
			}
			it := voteItem{From: id, Kind: "honest", PC: pc, Real: []hotstuff.ID{id}, Plain: true}
			if c.W.LibraryDefect(pc.Signature(), func(hotstuff.ID) []byte { return B.ToBytes() }) {
				// the collector cannot verify this genuine vote because of the pairing library defect (vk/blsref.go)
				it.Plain = false
				it.Kind = "honest-but-library-rejects"
				r.Obs("bls_library_defect_votes", 1)
			}
			items = append(items, it)
		}
		hostile := rng.Range(0, 5)
		for k := 0; k < hostile; k++ {
			id := hotstuff.ID(rng.Range(2, nn))
			m := c.W.M(id)
			switch rng.Intn(11) {
			case 9, 10: // the sender's genuine signature over B labelled with another replica's id - half of the time the collector's own
				x := hotstuff.ID(1)
				if rng.Bool() {
					x = hotstuff.ID(rng.Range(1, nn))
				}
				if x == id {
					break
				}
				own, err := m.Auth.Sign(B.ToBytes())
				if err != nil {
					break
				}
				var forged hotstuff.QuorumSignature
				if scheme == crypto.NameBLS12 {
					var bf crypto.Bitfield
					bf.Add(x)
					if rs, err := crypto.RestoreBLS12AggregateSignature(own.ToBytes(), bf); err == nil {
						forged = rs
					}
				} else {
					forged = c.sigInterleaved([]hotstuff.ID{x}, [][]byte{own.ToBytes()})
				}
				if forged != nil {
					items = append(items, voteItem{From: id, Kind: fmt.Sprintf("signature-labelled-as-%d", x), PC: hotstuff.NewPartialCert(forged, B.Hash())})
				}
			case 0: // duplicate of an honest vote
				if len(items) > 0 {
					it := items[rng.Intn(len(items))]
					it.Kind = "duplicate-" + it.Kind
					items = append(items, it)
				}
			case 1: // signature over another message labelled with B's hash
				s, _ := m.Auth.Sign([]byte("something else"))
				items = append(items, voteItem{From: id, Kind: "wrong-message", PC: hotstuff.NewPartialCert(s, B.Hash())})
			case 2: // genuine vote for the sibling block
				pc, _ := m.Auth.CreatePartialCert(other)
				items = append(items, voteItem{From: id, Kind: "other-block", PC: pc})
			case 3: // vote for a block nobody can obtain
				pc, _ := m.Auth.CreatePartialCert(unknown)
				items = append(items, voteItem{From: id, Kind: "unknown-block", PC: pc})
			case 4: // multi-signer partial certificate: two genuine signatures combined
				id2 := hotstuff.ID(2 + (int(id)-2+1)%(nn-1))
				if id2 != id {
					a, _ := m.Auth.Sign(B.ToBytes())
					b, _ := c.W.M(id2).Auth.Sign(B.ToBytes())
					if comb, err := m.Auth.Combine(a, b); err == nil {
						items = append(items, voteItem{From: id, Kind: "multi-signer", PC: hotstuff.NewPartialCert(comb, B.Hash()), Real: []hotstuff.ID{id, id2}})
					}
				}
			case 5: // repeated signer
				if sig := c.sigRepeatedBy(m, B.ToBytes(), 2); sig != nil && scheme != crypto.NameBLS12 {
					items = append(items, voteItem{From: id, Kind: "repeated-signer", PC: hotstuff.NewPartialCert(sig, B.Hash()), Real: []hotstuff.ID{id}})
				}
			case 6: // BLS point at infinity with an empty participant set
				if scheme == crypto.NameBLS12 {
					inf := make([]byte, 96)
					inf[0] = 0xc0
					if s, err := crypto.RestoreBLS12AggregateSignature(inf, crypto.Bitfield{}); err == nil {
						items = append(items, voteItem{From: id, Kind: "infinity-empty", PC: hotstuff.NewPartialCert(s, B.Hash())})
					}
				}
			case 7: // another replica's genuine signature, sent by id (the vote is genuine for its signer)
				id2 := hotstuff.ID(2 + (int(id)-2+1)%(nn-1))
				pc, _ := c.W.M(id2).Auth.CreatePartialCert(B)
				items = append(items, voteItem{From: id, Kind: "relayed-vote", PC: pc, Real: []hotstuff.ID{id2}, Plain: true})
			case 8: // vote for a stale block (genesis is not newer than the high QC)
				pc, _ := m.Auth.CreatePartialCert(hotstuff.GetGenesis())
				items = append(items, voteItem{From: id, Kind: "stale-block", PC: pc})
			}
		}
		// bls12: one puppet may have presented a well-formed proof-of-possession that does not belong to its key (a copy of
		// another replica's): its key is not accepted, so its votes - genuine signatures of that key - are not valid votes,
		// however often and by whomever they are sent
		var noPop hotstuff.ID
		if scheme == crypto.NameBLS12 && nn >= 4 && rng.Chance(1, 3) {
			noPop = hotstuff.ID(rng.Range(3, nn))
			other := hotstuff.ID(3 + (int(noPop)-3+1)%(nn-2))
			for _, at := range []hotstuff.ID{1, 2} {
				c.W.M(at).Cfg.AddReplica(&hotstuff.ReplicaInfo{ID: noPop, PubKey: c.W.Keys[noPop].Public(), Metadata: map[string]string{"bls12-pop-bin": c.W.PopOf(other)}})
			}
			var kept []voteItem
			for _, it := range items {
				has := false
				var rest []hotstuff.ID
				for _, id := range it.Real {
					if id == noPop {
						has = true
					} else {
						rest = append(rest, id)
					}
				}
				if has {
					it.Kind += "+signer-without-valid-pop"
					it.Real = rest
					it.Plain = false
					kept = append(kept, it, it) // sent twice
				} else {
					kept = append(kept, it)
				}
			}
			items = kept
			r.Obs("cases_with_a_replica_without_valid_pop", 1)
		}
		// arrival order; the proposal itself arrives at a random position (or first)
		order := rng.Perm(len(items))
		propAt := 0
		if rng.Chance(1, 2) {
			propAt = rng.Range(0, len(items))
		}
		subjectVotes := rng.Chance(3, 4) // whether the subject receives the proposal at all before the end
		S1, S2 := map[hotstuff.ID]bool{}, map[hotstuff.ID]bool{}
		var seq []string
		bad := false
		fail := func(rule, format string, a ...any) {
			if bad {
				return
			}
			bad = true
			r.Violate(vbase.Sig("votes-"+rule, "scheme", scheme, "async", async), fmt.Sprintf(format, a...)+fmt.Sprintf(" [n=%d q=%d %s arrival=%v]", nn, q, scheme, seq),
				map[string]any{"engine": "subject", "seed": p.Seed, "shard": p.Shard, "nshards": p.NShards, "case": i, "arrival": seq, "subject_log": subj.M.Logger.Tail()})
		}
		quiesce := func() {
			if !async {
				subj.Node.Drain(10000)
				return
			}
			deadline := time.Now().Add(120 * time.Second)
			stable := 0
			for stable < 3 {
				subj.Node.Drain(10000)
				busy := subj.M.Rec.Busy()
				free := false
				if pm, ok := vk.Peek[sync.Mutex](subj.Node.VM, "mut"); ok {
					if pm.TryLock() {
						pm.Unlock()
						free = true
					}
				} else {
					free = true
				}
				// goroutines spawned by CollectVote that have not reached the signature check yet are only visible in the stack dump
				if busy == 0 && free && vk.GoroutinesIn("votingmachine.(*VotingMachine).") == 0 {
					stable++
					runtime.Gosched()
					time.Sleep(30 * time.Microsecond)
				} else {
					stable = 0
					time.Sleep(50 * time.Microsecond)
				}
				if time.Now().After(deadline) {
					r.Inconclusive("quiescence watchdog fired in the asynchronous vote harness")
					return
				}
			}
			subj.Node.Drain(10000)
		}
		have := func() (hotstuff.QuorumCert, bool) {
			qmu.Lock()
			defer qmu.Unlock()
			for _, qc := range qcs {
				if qc.BlockHash() == B.Hash() {
					return qc, true
				}
			}
			return hotstuff.QuorumCert{}, false
		}
		judge := func(final bool) {
			qc, got := have()
			if got {
				verd, signers := c.W.TrueQC(qc)
				if verd == vk.MustReject {
					fail("emitted-qc-invalid", "the collector produced a QC for B that is not backed by a quorum of genuine votes (%d real signers)", len(signers))
					return
				}
				if err := c.W.M(2).Auth.VerifyQuorumCert(qc); err != nil {
					// replica 2 must know B to verify
					c.W.M(2).Chain.Store(B)
					if err := c.W.M(2).Auth.VerifyQuorumCert(qc); err != nil {
						if c.W.LibraryDefect(qc.Signature(), func(hotstuff.ID) []byte { return B.ToBytes() }) {
							r.Obs("bls_library_defect_cases_skipped", 1)
							return
						}
						fail("emitted-qc-unverifiable", "the QC for B produced by the collector does not verify at replica 2: %v", err)
						return
					}
				}
				okSub := true
				qc.Signature().Participants().ForEach(func(id hotstuff.ID) {
					if !S2[id] {
						okSub = false
					}
				})
				if !okSub {
					fail("emitted-qc-foreign-signer", "the QC for B names a replica whose genuine signature over B never arrived (S2=%v)", vk.SortedIDs(S2))
					return
				}
				if len(S2) < q {
					fail("qc-below-quorum", "a QC for B was produced although genuine signatures over B from only %d distinct replicas arrived (q=%d)", len(S2), q)
					return
				}
			}
			// the statement is about a block newer than the collector's highest known QC: if another block of the same or a
			// later view was certified meanwhile (possible here because more than f puppets may double-vote), B is out of scope
			if hq := subj.Node.VS.HighQC(); hq.View() >= B.View() && hq.BlockHash() != B.Hash() {
				r.Obs("cases_where_another_block_was_certified_first", 1)
				return
			}
			if !got && len(S1) >= q && (final || !async) {
				fail("qc-prevented", "genuine single-signer votes for B from %d distinct replicas %v have arrived (q=%d) but no QC for B was produced", len(S1), vk.SortedIDs(S1), q)
			}
		}
		deliverProposal := func() {
			seq = append(seq, "PROPOSAL")
			before := c.W.Log.CountBy(1)
			c.inject(2, subj, hotstuff.ProposeMsg{ID: 2, Block: B})
			quiesce()
			ownOK := true
			if ss := c.W.Log.SigsFor(1, B.ToBytes()); len(ss) > 0 && scheme == crypto.NameBLS12 {
				var bf crypto.Bitfield
				bf.Add(1)
				if s, err := crypto.RestoreBLS12AggregateSignature(ss[0], bf); err == nil && c.W.LibraryDefect(s, func(hotstuff.ID) []byte { return B.ToBytes() }) {
					ownOK = false
				}
			}
			if c.W.Log.CountBy(1) > before && c.W.Log.Signed(1, B.ToBytes()) && ownOK {
				// the subject voted for B itself; as next leader it collects its own vote
				S1[1], S2[1] = true, true
			}
		}
		proposed := false
		// the collector may leave B's view on a timeout certificate before the votes are in: B stays newer than its high QC,
		// so a quorum of valid votes arriving afterwards must still give a QC
		tcAt := -1
		if rng.Chance(1, 4) {
			tcAt = rng.Range(0, len(order))
		}
		deliverTC := func() {
			tms := c.W.HonestTimeouts(B.View(), vk.IDs(nn)[1:q+1], func(hotstuff.ID) hotstuff.QuorumCert { return genQC }, false)
			tc, err := c.W.M(2).Auth.CreateTimeoutCert(B.View(), tms)
			if err != nil {
				return
			}
			seq = append(seq, "TC(view of B)")
			c.inject(2, subj, hotstuff.NewViewMsg{ID: 2, SyncInfo: hotstuff.NewSyncInfoWith(tc)})
			quiesce()
			r.Obs("cases_where_the_collector_left_the_view_by_a_tc", 1)
		}
		// another proposal may be handled while votes for B are waiting for their block (a proposal that the replica
		// rejects): it releases the deferred votes, whose block the replica can obtain by a block request
		decoyAt := -1
		if rng.Chance(1, 4) {
			decoyAt = rng.Range(0, len(order))
		}
		deliverDecoy := func() {
			// parent is not the certified block: rejected without a vote (B's sibling would use up the subject's vote for the view
			// and make it refuse - and not store - B itself: an equivocating leader, not judged here)
			d := hotstuff.NewBlock(unknown.Hash(), genQC, vk.Batch(53, 1, 1), 1, 2)
			seq = append(seq, "DECOY-PROPOSAL")
			c.inject(2, subj, hotstuff.ProposeMsg{ID: 2, Block: d})
			quiesce()
			r.Obs("cases_with_another_proposal_before_the_block", 1)
		}
		for k, oi := range order {
			if c.Panic != nil || bad {
				break
			}
			if k == decoyAt && !proposed {
				deliverDecoy()
			}
			if k == tcAt && proposed {
				deliverTC()
			}
			if subjectVotes && !proposed && k == propAt {
				deliverProposal()
				proposed = true
				judge(false)
			}
			it := items[oi]
			seq = append(seq, fmt.Sprintf("%s(r%d)", it.Kind, it.From))
			c.inject(it.From, subj, hotstuff.VoteMsg{ID: it.From, PartialCert: vk.WirePartialCert(it.PC)})
			quiesce()
			// the vote counts towards the model as soon as the subject can obtain B (stored, or served by puppet 2)
			if it.Plain && len(it.Real) == 1 {
				S1[it.Real[0]] = true
			}
			for _, id := range it.Real {
				S2[id] = true
			}
			// votes that arrived before the block are deferred until a proposal is handled: judge only once B was delivered
			if proposed || !subjectVotes {
				if proposed {
					judge(false)
				}
			}
		}
		if subjectVotes && !proposed && c.Panic == nil && !bad {
			deliverProposal()
			proposed = true
		}
		if c.Panic == nil && !bad && proposed {
			quiesce()
			judge(true)
		}
		if c.Panic != nil {
			r.Obs("panics_judged_under_C10", 1)
			r.Note("panic while collecting votes (judged under C10): %v at %s", c.Panic, c.PanicAt)
		}
		if _, got := have(); got {
			r.Obs("qcs_produced", 1)
		}
		r.Obs("votes_injected", int64(len(items)))
		r.Eval(hostile > 0 || propAt > 0, fmt.Sprint(nn, scheme, seq))
		if (hostile > 0) && r.WantSample() {
			_, got := have()
			r.Sample(map[string]any{"n": nn, "q": q, "scheme": scheme, "async": async, "arrival": seq, "qc_produced": got, "S1": vk.SortedIDs(S1), "S2": vk.SortedIDs(S2)})
		}
		c.Close()
	}
}

// sigRepeatedBy builds a signature object naming member m's id k times.
func (c *Cluster) sigRepeatedBy(m *vk.Member, msg []byte, k int) hotstuff.QuorumSignature {
	for _, a := range c.Actors {
		if a.M == m {
			return c.sigRepeated(a, msg, k)
		}
	}
	return nil
}

var _ = votingmachine.New
