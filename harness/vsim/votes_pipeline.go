package vsim

import (
	"fmt"
	"runtime"
	"sync"
	"sync/atomic"
	"time"

	"github.com/relab/hotstuff"
	"github.com/relab/hotstuff/core/eventloop"
	"github.com/relab/hotstuff/protocol/rules"
	"github.com/relab/hotstuff/security/crypto"
	"github.com/relab/hotstuff/verif/vbase"
	"github.com/relab/hotstuff/verif/vk"
)

func init() {
	vk.Register("C09.pipeline", c09Pipeline)
}

// c09Pipeline: the subject collects the votes of several consecutive blocks (it leads views 2..K+1) with
// asynchronous verification. The harness holds the verification of some genuine votes of block i inside the
// signature check (a gate in the recording crypto layer) and releases them at PRNG-chosen points while the votes
// of block i+1 are being collected, so that late verifications of an older block interleave with the collection
// of the current one. Votes are injected in bursts (no quiescence in between).
func c09Pipeline(p vbase.Params, r *vbase.Result) {
	r.Rule = "real VotingMachine (asynchronous verification, race detector on) inside a replica that leads views 2..K+1 and therefore collects the votes of K=2..4 consecutive blocks (B1 from a puppet, the next ones its own proposals); " +
		"all other replicas vote genuinely for every block; per block a PRNG subset of at most n-q votes is HELD inside signature verification and released while the next block's votes are collected, the rest arrive in a burst " +
		"in PRNG order with duplicates; oracle per block: once q genuine votes were delivered and their verifications finished (quiescence apart from held ones) a QC for the block must have been produced; every QC passes the " +
		"sign-log oracle, verifies at replica 2 and names only voters whose vote arrived; non-trivial: a held vote of block i was released during the collection of block i+1; distinct: (n, K, scheme, arrival and release order)"
	cases := p.N(600, 20000)
	for i := 0; i < cases; i++ {
		if !p.Mine(i) {
			continue
		}
		rng := vbase.NewRng(p.Seed, "C09.pipeline", i)
		c09PipelineCase(p, r, rng, i)
		if r.NViolations() > 3 {
			return
		}
	}
}

func c09PipelineCase(p vbase.Params, r *vbase.Result, rng *vbase.Rng, caseNo int) {
	nn := []int{4, 4, 7}[rng.Intn(3)]
	scheme := crypto.NameEDDSA
	switch rng.Intn(8) {
	case 0:
		scheme = crypto.NameECDSA
	case 1:
		scheme = crypto.NameBLS12
	}
	ruleset := []string{rules.NameChainedHotStuff, rules.NameSimpleHotStuff}[rng.Intn(2)]
	K := rng.Range(2, 4)
	cfg := Config{N: nn, Ruleset: ruleset, Scheme: scheme, Cache: uint([]int{0, 100}[rng.Intn(2)]), Leader: "script", Sched: []hotstuff.ID{2, 1, 1, 1, 1, 1, 1, 1}, BatchSize: 1,
		Profile: "subject-votes-pipeline", ByzRules: map[hotstuff.ID]string{}, Async: true}
	for id := 2; id <= nn; id++ {
		cfg.Puppets = append(cfg.Puppets, hotstuff.ID(id))
	}
	c, err := NewCluster(cfg, rng, r)
	if err != nil {
		r.Inconclusive(err.Error())
		return
	}
	defer c.Close()
	subj := c.Actors[0]
	subj.M.Logger.Keep = 200
	q := c.W.Q()
	var qcs []hotstuff.QuorumCert
	var qmu sync.Mutex
	eventloop.Register(subj.M.EL, func(m hotstuff.NewViewMsg) {
		if qc, ok := m.SyncInfo.QC(); ok && !m.FromNetwork {
			qmu.Lock()
			qcs = append(qcs, qc)
			qmu.Unlock()
		}
	}, eventloop.Prioritize())
	// gate: held (signer, message) pairs block inside Verify until released
	type key struct {
		id  hotstuff.ID
		msg string
	}
	var gmu sync.Mutex
	held := map[key]chan struct{}{}
	var blocked atomic.Int64
	yr := vbase.NewRng(p.Seed, "C09.pipeline.yield", caseNo)
	var ymu sync.Mutex
	subj.M.Rec.Yield = func() {
		ymu.Lock()
		k := yr.Intn(4)
		ymu.Unlock()
		if k == 0 {
			runtime.Gosched()
		}
	}
	subj.M.Rec.Gate = func(sig hotstuff.QuorumSignature, msg []byte) {
		if sig == nil || sig.Participants().Len() != 1 {
			return
		}
		var id hotstuff.ID
		sig.Participants().ForEach(func(i hotstuff.ID) { id = i })
		gmu.Lock()
		ch := held[key{id, string(msg)}]
		gmu.Unlock()
		if ch != nil {
			blocked.Add(1)
			<-ch
			blocked.Add(-1)
		}
	}
	releaseAll := func() {
		gmu.Lock()
		for k, ch := range held {
			close(ch)
			delete(held, k)
		}
		gmu.Unlock()
	}
	defer releaseAll()
	var seq []string
	bad := false
	fail := func(rule, format string, a ...any) {
		if bad {
			return
		}
		bad = true
		r.Violate(vbase.Sig("votes-"+rule, "scheme", scheme, "async", true), fmt.Sprintf(format, a...)+fmt.Sprintf(" [pipeline n=%d q=%d K=%d %s %s schedule=%v]", nn, q, K, scheme, ruleset, seq),
			map[string]any{"engine": "subject-pipeline", "seed": p.Seed, "case": caseNo, "schedule": seq, "subject_log": subj.M.Logger.Tail()})
	}
	inconclusive := false
	// quiesce: event loop drained, voting-machine mutex free and no verification in flight except the held ones
	quiesce := func() {
		deadline := time.Now().Add(120 * time.Second)
		stable := 0
		for stable < 3 {
			subj.Node.Drain(10000)
			free := true
			if pm, ok := vk.Peek[sync.Mutex](subj.Node.VM, "mut"); ok {
				if pm.TryLock() {
					pm.Unlock()
				} else {
					free = false
				}
			}
			// goroutines spawned by CollectVote that have not reached the signature check yet are only visible in the stack dump
			nb := blocked.Load()
			if int64(subj.M.Rec.Busy()) == nb && free && int64(vk.GoroutinesIn("votingmachine.(*VotingMachine).")) == nb {
				stable++
				runtime.Gosched()
				time.Sleep(30 * time.Microsecond)
			} else {
				stable = 0
				time.Sleep(50 * time.Microsecond)
			}
			if time.Now().After(deadline) {
				inconclusive = true
				r.Inconclusive("quiescence watchdog fired in the pipelined vote harness")
				return
			}
		}
		subj.Node.Drain(10000)
	}
	have := func(b *hotstuff.Block) (hotstuff.QuorumCert, bool) {
		qmu.Lock()
		defer qmu.Unlock()
		for _, qc := range qcs {
			if qc.BlockHash() == b.Hash() {
				return qc, true
			}
		}
		return hotstuff.QuorumCert{}, false
	}
	c.Start()
	genQC := hotstuff.NewQuorumCert(nil, 0, hotstuff.GetGenesis().Hash())
	B := hotstuff.NewBlock(hotstuff.GetGenesis().Hash(), genQC, vk.Batch(50, 1, 1), 1, 2)
	c.W.Blocks.Add(B)
	c.Actors[1].Byz.serve[B.Hash()] = B
	seq = append(seq, "PROPOSAL(B1)")
	c.inject(2, subj, hotstuff.ProposeMsg{ID: 2, Block: B})
	quiesce()
	type heldVote struct {
		k   key
		blk int
	}
	var pendingHeld []heldVote // held votes of earlier blocks, not yet released
	releasedDuringNext := false
	release := func(h heldVote) {
		gmu.Lock()
		if ch := held[h.k]; ch != nil {
			close(ch)
			delete(held, h.k)
		}
		gmu.Unlock()
		seq = append(seq, fmt.Sprintf("release(r%d,B%d)", h.k.id, h.blk))
	}
	for bi := 1; bi <= K && !bad && !inconclusive && c.Panic == nil; bi++ {
		msg := B.ToBytes()
		own := 0
		if c.W.Log.Signed(1, msg) {
			own = 1
		}
		arrived := map[hotstuff.ID]bool{}
		prompt := map[hotstuff.ID]bool{}
		if own == 1 {
			arrived[1], prompt[1] = true, true
		}
		// genuine votes of all puppets
		type vote struct {
			id   hotstuff.ID
			pc   hotstuff.PartialCert
			hold bool
		}
		var votes []vote
		usable := 0
		for id := 2; id <= nn; id++ {
			pc, err := c.W.M(hotstuff.ID(id)).Auth.CreatePartialCert(B)
			if err != nil {
				panic(err)
			}
			if c.W.LibraryDefect(pc.Signature(), func(hotstuff.ID) []byte { return msg }) {
				r.Obs("bls_library_defect_votes", 1)
				continue // never sent: the collector could not verify it
			}
			votes = append(votes, vote{id: hotstuff.ID(id), pc: pc})
			usable++
		}
		maxHold := usable + own - q
		if maxHold < 0 {
			maxHold = 0
		}
		nHold := 0
		if maxHold > 0 {
			nHold = rng.Range(0, maxHold)
			if rng.Chance(2, 3) && nHold == 0 {
				nHold = 1
			}
		}
		for _, i := range rng.Perm(len(votes))[:nHold] {
			votes[i].hold = true
			k := key{votes[i].id, string(msg)}
			gmu.Lock()
			held[k] = make(chan struct{})
			gmu.Unlock()
		}
		// schedule: prompt votes in PRNG order, duplicates, releases of earlier held votes, held votes of this block
		type step struct {
			kind string
			v    vote
			h    heldVote
		}
		var steps []step
		for _, v := range votes {
			steps = append(steps, step{kind: "vote", v: v})
			if rng.Chance(1, 5) {
				steps = append(steps, step{kind: "vote", v: v}) // duplicate
			}
		}
		for _, h := range pendingHeld {
			steps = append(steps, step{kind: "release", h: h})
		}
		pendingHeld = nil
		order := rng.Perm(len(steps))
		for _, oi := range order {
			st := steps[oi]
			switch st.kind {
			case "vote":
				tag := "vote"
				if st.v.hold {
					tag = "held-vote"
				}
				seq = append(seq, fmt.Sprintf("%s(r%d,B%d)", tag, st.v.id, bi))
				c.inject(st.v.id, subj, hotstuff.VoteMsg{ID: st.v.id, PartialCert: vk.WirePartialCert(st.v.pc)})
				arrived[st.v.id] = true
				if !st.v.hold {
					prompt[st.v.id] = true
				}
			case "release":
				if rng.Chance(1, 2) {
					quiesce()
					seq = append(seq, "quiesce")
				}
				if _, got := have(B); !got {
					releasedDuringNext = true
				}
				release(st.h)
				if rng.Chance(1, 2) {
					quiesce()
					seq = append(seq, "quiesce")
				}
			}
			if inconclusive || c.Panic != nil {
				break
			}
		}
		for _, v := range votes {
			if v.hold {
				pendingHeld = append(pendingHeld, heldVote{key{v.id, string(msg)}, bi})
			}
		}
		quiesce()
		if inconclusive || c.Panic != nil {
			break
		}
		r.Obs("blocks_collected", 1)
		r.Obs("votes_injected", int64(len(votes)))
		qc, got := have(B)
		if hq := subj.Node.VS.HighQC(); !got && hq.View() >= B.View() {
			r.Obs("cases_where_another_block_was_certified_first", 1)
			break
		}
		if !got && len(prompt) >= q {
			fail("qc-prevented", "block B%d (view %d): genuine single-signer votes from %d distinct replicas %v were delivered and verified (q=%d; %d more are held inside verification) but no QC was produced",
				bi, B.View(), len(prompt), vk.SortedIDs(prompt), q, len(pendingHeld))
			break
		}
		if !got {
			break
		}
		r.Obs("qcs_produced", 1)
		if verd, signers := c.W.TrueQC(qc); verd == vk.MustReject {
			fail("emitted-qc-invalid", "the collector produced a QC for B%d that is not backed by a quorum of genuine votes (%d real signers)", bi, len(signers))
			break
		}
		c.W.M(2).Chain.Store(B)
		if err := c.W.M(2).Auth.VerifyQuorumCert(qc); err != nil && !c.W.LibraryDefect(qc.Signature(), func(hotstuff.ID) []byte { return msg }) {
			fail("emitted-qc-unverifiable", "the QC for B%d produced by the collector does not verify at replica 2: %v", bi, err)
			break
		}
		foreign := false
		qc.Signature().Participants().ForEach(func(id hotstuff.ID) {
			if !arrived[id] {
				foreign = true
			}
		})
		if foreign {
			fail("emitted-qc-foreign-signer", "the QC for B%d names a replica whose vote never arrived (arrived=%v)", bi, vk.SortedIDs(arrived))
			break
		}
		// next block: the subject's own proposal for view bi+1
		var next *hotstuff.Block
		for _, pd := range c.takeSent(subj) {
			if pm, ok := pd.Msg.(hotstuff.ProposeMsg); ok && pm.Block != nil && pm.Block.View() == B.View()+1 {
				next = pm.Block
			}
		}
		if next == nil {
			r.Obs("subject_did_not_propose_next", 1)
			break
		}
		c.W.Blocks.Add(next)
		B = next
	}
	releaseAll()
	if !inconclusive {
		quiesce()
	}
	if c.Panic != nil {
		r.Obs("panics_judged_under_C10", 1)
		r.Note("panic while collecting votes (judged under C10): %v at %s", c.Panic, c.PanicAt)
	}
	r.Eval(releasedDuringNext, fmt.Sprint(nn, K, scheme, seq))
	if releasedDuringNext {
		r.Obs("late_verifications_interleaved_with_next_block", 1)
	}
	if r.WantSample() {
		r.Sample(map[string]any{"n": nn, "q": q, "K": K, "scheme": scheme, "schedule": seq})
	}
}
