#!/usr/bin/env python3
"""Run the repository's baseline suite (hooks: none) and compare with /root/.vp/BASELINE.json stable_pass."""
import json, subprocess, sys, os
env = dict(os.environ); env["GOFLAGS"] = "-mod=mod"; env["GOPROXY"] = "off"; env.pop("GOSUMDB", None)
repo = os.environ.get("VERIF_REPO", "/repo")
p = subprocess.run(["go", "test", "-mod=mod", "-json", "-vet=off", "-count=1", "-timeout", "25m", "./..."], cwd=repo, env=env, capture_output=True, text=True)
passed, failed = set(), set()
for line in p.stdout.splitlines():
    try:
        e = json.loads(line)
    except Exception:
        continue
    if e.get("Test") and e.get("Action") in ("pass", "fail"):
        (passed if e["Action"] == "pass" else failed).add(e["Package"] + "::" + e["Test"])
base = set(json.load(open("/root/.vp/BASELINE.json"))["stable_pass"])
missing = sorted(base - passed)
print("passed=%d failed=%d baseline=%d missing_from_pass=%d" % (len(passed), len(failed), len(base), len(missing)))
for m in missing[:40]:
    print("  MISSING", m)
for f in sorted(failed)[:40]:
    print("  FAILED", f)
sys.exit(0 if not missing and not failed else 1)
