"""Driver: overlay/modfile generation, builds, sharded runs, merge, findings, evidence."""
import glob
import hashlib
import json
import os
import re
import shutil
import subprocess
import sys
import time
from concurrent.futures import ThreadPoolExecutor

VERIF = os.path.dirname(os.path.dirname(os.path.abspath(__file__)))
REPO = os.environ.get("VERIF_REPO", "/repo")
BUILD = os.environ.get("VERIF_BUILD", os.path.join(VERIF, "build"))
EVDIR = os.environ.get("VERIF_EVIDENCE_DIR", os.path.join(VERIF, "evidence"))
RPDIR = os.environ.get("VERIF_REPLAY_DIR", os.path.join(VERIF, "replays"))
HARNESS = os.path.join(VERIF, "harness")
MODPATH = "github.com/relab/hotstuff"
NCPU = int(os.environ.get("VERIF_JOBS", str(os.cpu_count() or 4)))

sys.path.insert(0, os.path.dirname(os.path.abspath(__file__)))
import plan  # noqa: E402


# ----------------------------------------------------------------- environment

def base_env():
    env = dict(os.environ)
    env["GOFLAGS"] = "-mod=mod"
    env["GOPROXY"] = "off"
    env.pop("GOSUMDB", None)      # GOSUMDB=off breaks the offline toolchain switch
    env.pop("GONOSUMDB", None)
    env["GOTOOLCHAIN"] = "auto"
    return env


_GO = None


def go_bin():
    """Resolve the toolchain the repository needs once; then run it with GOTOOLCHAIN=local."""
    global _GO
    if _GO:
        return _GO
    cands = []
    try:
        out = subprocess.run(["go", "env", "GOROOT"], cwd=REPO, env=base_env(),
                             capture_output=True, text=True, timeout=120)
        if out.returncode == 0 and out.stdout.strip():
            cands.append(os.path.join(out.stdout.strip(), "bin", "go"))
    except Exception:
        pass
    want = None
    try:
        for line in open(os.path.join(REPO, "go.mod")):
            m = re.match(r"^(?:go|toolchain)\s+(?:go)?([0-9.]+)", line.strip())
            if m:
                want = m.group(1)
    except OSError:
        pass
    if want:
        cands += glob.glob(os.path.expanduser(
            "~/go/pkg/mod/golang.org/toolchain@v0.0.1-go%s.linux-amd64/bin/go" % want))
    for c in ("/usr/local/bin/go1.26", "/usr/local/bin/go1.26.8"):
        cands.append(c)
    for c in cands:
        if os.path.exists(c):
            env = go_env()
            r = subprocess.run([c, "version"], env=env, capture_output=True, text=True)
            if r.returncode == 0:
                _GO = c
                return c
    _GO = "go"
    return _GO


def go_env():
    env = base_env()
    env["GOTOOLCHAIN"] = "local"
    return env


# ----------------------------------------------------------------- overlay

def gen_overlay():
    """Map /verif/harness into the module tree of /repo (nothing is written to /repo)."""
    os.makedirs(os.path.join(BUILD, "bin"), exist_ok=True)
    repl = {}
    for root, _dirs, files in os.walk(HARNESS):
        rel = os.path.relpath(root, HARNESS)
        for f in files:
            if not f.endswith(".go"):
                continue
            src = os.path.join(root, f)
            parts = rel.split(os.sep)
            if parts[0] == "inpkg":
                # harness/inpkg/<pkg path with __ as separator>/<file> -> /repo/<pkg path>/<file>
                pkg = parts[1].replace("__", os.sep)
                dst = os.path.join(REPO, pkg, f)
            else:
                dst = os.path.join(REPO, "verif", rel, f)
            repl[dst] = src
    with open(os.path.join(BUILD, "overlay.json"), "w") as fh:
        json.dump({"Replace": repl}, fh, indent=1, sort_keys=True)
    gomod = open(os.path.join(REPO, "go.mod")).read()
    if "anishathalye/porcupine" not in gomod:
        gomod += "\nrequire github.com/anishathalye/porcupine v1.3.0\n"
    with open(os.path.join(BUILD, "go.mod"), "w") as fh:
        fh.write(gomod)
    gosum = open(os.path.join(REPO, "go.sum")).read()
    extra = os.path.join(VERIF, "lib", "extra.go.sum")
    if os.path.exists(extra):
        have = set(gosum.splitlines())
        for line in open(extra).read().splitlines():
            if line and line not in have:
                gosum += line + "\n"
    with open(os.path.join(BUILD, "go.sum"), "w") as fh:
        fh.write(gosum)


def build(target, race=False):
    """Build a harness binary from /repo's current working tree + overlay.

    target: ("main", "verif/cmd/vrun") or ("test", "core/eventloop")
    Returns (path, None) or (None, error text).
    """
    kind, pkg = target
    name = pkg.replace("/", "_") + ("-race" if race else "") + (".test" if kind == "test" else "")
    out = os.path.join(BUILD, "bin", name)
    common = ["-overlay=" + os.path.join(BUILD, "overlay.json"),
              "-modfile=" + os.path.join(BUILD, "go.mod")]
    if race:
        common.append("-race")
    if kind == "main":
        cmd = [go_bin(), "build"] + common + ["-o", out, "./" + pkg + "/"]
    else:
        cmd = [go_bin(), "test", "-c", "-vet=off"] + common + ["-o", out, "./" + pkg + "/"]
    r = subprocess.run(cmd, cwd=REPO, env=go_env(), capture_output=True, text=True)
    if r.returncode != 0:
        return None, (r.stdout + r.stderr)[-4000:]
    return out, None


# ----------------------------------------------------------------- running parts

def run_shard(binary, kind, part, tier, seed, shard, nshards, outdir, timeout_s, scale, race):
    out = os.path.join(outdir, "%s.%d.json" % (part, shard))
    log = os.path.join(outdir, "%s.%d.log" % (part, shard))
    if os.path.exists(out):
        os.remove(out)
    env = dict(os.environ)
    env["VERIF_PART"] = part
    env["VERIF_TIER"] = tier
    env["VERIF_SEED"] = str(seed)
    env["VERIF_SHARD"] = str(shard)
    env["VERIF_NSHARDS"] = str(nshards)
    env["VERIF_OUT"] = out
    env["VERIF_SCALE"] = str(scale)
    if race:
        env["GORACE"] = "halt_on_error=0 log_path=%s" % os.path.join(outdir, "%s.%d.race" % (part, shard))
    if kind == "main":
        cmd = [binary, "-part", part, "-tier", tier, "-seed", str(seed), "-shard", str(shard),
               "-nshards", str(nshards), "-out", out, "-scale", str(scale)]
    else:
        cmd = [binary, "-test.run", "^TestVerif$", "-test.timeout", "0", "-test.count", "1"]
    t0 = time.time()
    with open(log, "w") as lf:
        try:
            p = subprocess.run(["timeout", "-s", "QUIT", str(int(timeout_s))] + cmd, cwd=VERIF, env=env,
                               stdout=lf, stderr=subprocess.STDOUT)
            rc = p.returncode
        except Exception as e:  # pragma: no cover
            lf.write("driver exception: %r\n" % (e,))
            rc = -1
    res = None
    if os.path.exists(out):
        try:
            res = json.load(open(out))
        except Exception:
            res = None
    races = []
    if race:
        for rf in glob.glob(os.path.join(outdir, "%s.%d.race*" % (part, shard))):
            races += parse_race_log(open(rf, errors="replace").read())
    return {"part": part, "shard": shard, "rc": rc, "result": res, "log": log,
            "wall": time.time() - t0, "races": races}


FRAME_RE = re.compile(r"^\s+(\S+)\(.*\)\s*$")
FILE_RE = re.compile(r"^\s+(/\S+\.go):\d+")


def parse_race_log(text):
    """Split a GORACE log into reports; each report -> list of stacks; each stack -> list of (func, file)."""
    reports = []
    blocks = text.split("WARNING: DATA RACE")[1:]
    for b in blocks:
        b = b.split("==================")[0]
        stacks = []
        cur = None
        lines = b.splitlines()
        i = 0
        while i < len(lines):
            ln = lines[i]
            if re.match(r"^(Read|Write|Previous read|Previous write|Atomic|Previous atomic)", ln.strip()):
                cur = []
                stacks.append(cur)
            elif ln.startswith("Goroutine ") or ln.strip() == "":
                if ln.startswith("Goroutine "):
                    cur = None
            elif cur is not None:
                m = FRAME_RE.match(ln)
                if m and i + 1 < len(lines):
                    f = FILE_RE.match(lines[i + 1])
                    cur.append((m.group(1), f.group(1) if f else ""))
                    i += 1
            i += 1
        reports.append(stacks[:2])
    return reports


def repo_frame(stack):
    """Innermost frame of the repository proper (not harness, not deps)."""
    for fn, fl in stack:
        if fl.startswith(REPO + "/") and "/verif/" not in fl and "zz_verif" not in fl:
            return fn, os.path.relpath(fl, REPO)
    return None


# ----------------------------------------------------------------- known findings

def property_anchors(pid):
    """Anchor files of a property, from the fixed properties.jsonl."""
    try:
        for line in open(os.path.join(VERIF, "properties.jsonl")):
            line = line.strip()
            if line:
                rec = json.loads(line)
                if rec["id"] == pid:
                    return list(rec["anchors"]["files"])
    except OSError:
        pass
    return []


def load_known():
    known = []
    path = os.path.join(VERIF, "KNOWN_FINDINGS.txt")
    if not os.path.exists(path):
        return known
    for line in open(path):
        line = line.strip()
        m = re.match(r"^KNOWN-FINDING:\s+property=(\S+)\s+sig=(\S+)\s+(.*)$", line)
        if m:
            known.append({"property": m.group(1), "sig": m.group(2), "text": m.group(3)})
    return known


# ----------------------------------------------------------------- one property

def run_property(pid, tier, seed):
    t0 = time.time()
    spec = plan.PROPERTIES.get(pid)
    if spec is None:
        print("unknown property %s" % pid)
        return 2
    scale = float(os.environ.get("VERIF_SCALE", "1"))
    gen_overlay()
    outdir = os.path.join(BUILD, "out", pid)
    shutil.rmtree(outdir, ignore_errors=True)
    os.makedirs(outdir, exist_ok=True)
    evpath = os.path.join(EVDIR, pid + ".json")
    os.makedirs(os.path.dirname(evpath), exist_ok=True)

    anchors = property_anchors(pid)
    parts = [p for p in spec["parts"] if tier in p.get("tiers", ("quick", "thorough"))]
    only = os.environ.get("VERIF_ONLY_PARTS")  # exploration aid (never used by MANIFEST commands): run a subset of the parts
    if only:
        parts = [p for p in parts if any(p["name"].endswith(x) or p["name"] == x for x in only.split(","))]
    inconclusive = []
    # build (deduplicated), in parallel
    targets = {}
    for p in parts:
        targets[(p["target"], bool(p.get("race")))] = None
    with ThreadPoolExecutor(max_workers=4) as ex:
        futs = {k: ex.submit(build, k[0], k[1]) for k in targets}
        for k, f in futs.items():
            targets[k] = f.result()
    jobs = []
    for p in parts:
        binary, err = targets[(p["target"], bool(p.get("race")))]
        if binary is None:
            msg = "attach failed (build of %s): %s" % (p["target"][1], (err or "").strip()[-1500:])
            if msg not in inconclusive:
                inconclusive.append(msg)
            continue
        nsh = p.get("shards", {}).get(tier, 1) if isinstance(p.get("shards"), dict) else p.get("shards", 1)
        nsh = max(1, min(int(nsh), NCPU if not p.get("exclusive") else 1))
        to = p.get("timeout", {}).get(tier, 600)
        for s in range(nsh):
            jobs.append((binary, p["target"][0], p["name"], tier, seed, s, nsh, outdir, to, scale,
                         bool(p.get("race"))))
    results = []
    with ThreadPoolExecutor(max_workers=NCPU) as ex:
        for r in ex.map(lambda a: run_shard(*a), jobs):
            results.append(r)

    # merge
    evaluations = 0
    nontrivial = 0
    distinct = set()
    distinct_counted = 0
    samples = []
    observed = {}
    violations = []
    viol_counts = {}
    notes = []
    assumptions = list(spec.get("assumptions", []))
    rules = []
    per_part = {}
    exhaustive_parts = []
    race_notes = []
    for r in results:
        res = r["result"]
        pp = per_part.setdefault(r["part"], {"evaluations": 0, "nontrivial": 0, "shards": 0, "wall_s": 0.0})
        pp["shards"] += 1
        pp["wall_s"] = round(max(pp["wall_s"], r["wall"]), 2)
        if res is None:
            tail = ""
            try:
                tail = open(r["log"], errors="replace").read()[-3000:]
            except OSError:
                pass
            if r["rc"] in (-9, 137):
                # SIGKILL: the kernel's out-of-memory killer or an outer supervisor ended the harness process; nothing
                # was observed about the code under test
                inconclusive.append("%s shard %d was killed (SIGKILL, rc=%s): out of memory or outer timeout" % (r["part"], r["shard"], r["rc"]))
            elif r["rc"] == 124 or r["rc"] == 131 or r["rc"] == -3:
                inconclusive.append("watchdog fired for %s shard %d (rc=%s)" % (r["part"], r["shard"], r["rc"]))
            else:
                # the harness process died without a result: attribute to the input it logged last
                m = re.search(r"(panic: .*|fatal error: .*)", tail)
                site = crash_site(tail)
                violations.append({"part": r["part"], "sig": "harness-crash:part=%s,site=%s" % (r["part"], site),
                                   "msg": "harness process exited rc=%s without a result: %s" %
                                          (r["rc"], m.group(1) if m else tail[-400:]),
                                   "replay": {"log": r["log"], "part": r["part"], "shard": r["shard"],
                                              "seed": seed, "tier": tier}})
                viol_counts["harness-crash"] = viol_counts.get("harness-crash", 0) + 1
            continue
        evaluations += res["evaluations"]
        nontrivial += res["nontrivial"]
        pp["evaluations"] += res["evaluations"]
        pp["nontrivial"] += res["nontrivial"]
        for h in (res.get("distinct") or []):
            distinct.add(r["part"] + ":" + h)
        distinct_counted += res.get("distinct_counted") or 0
        for s in (res.get("samples") or [])[:2]:
            if len(samples) < 8:
                samples.append({"part": r["part"], "case": s})
        for k, v in (res.get("observed") or {}).items():
            key = r["part"] + "/" + k
            if k.startswith("max_"):
                observed[key] = max(observed.get(key, 0), v)
            else:
                observed[key] = observed.get(key, 0) + v
        for v in (res.get("violations") or []):
            v = dict(v)
            v["part"] = r["part"]
            violations.append(v)
        for k, c in (res.get("violation_counts") or {}).items():
            viol_counts[k] = viol_counts.get(k, 0) + c
        for n in (res.get("notes") or []):
            n = "%s: %s" % (r["part"], n)
            if n not in notes and len(notes) < 60:
                notes.append(n)
        for a in (res.get("assumptions") or []):
            if a not in assumptions:
                assumptions.append(a)
        for inc in (res.get("inconclusive") or []):
            inconclusive.append("%s shard %d: %s" % (r["part"], r["shard"], inc))
        if res.get("rule") and res["rule"] not in rules:
            rules.append(res["rule"])
        if res.get("exhaustive") and r["part"] not in exhaustive_parts:
            exhaustive_parts.append(r["part"])
        # race reports
        for stacks in r["races"]:
            frames = [repo_frame(s) for s in stacks]
            anchored = [f for f in frames if f and any(f[1] == a for a in anchors)]
            key = " <-> ".join(sorted("%s" % (f[0] if f else "?") for f in frames))
            if len(stacks) >= 2 and len(anchored) == len(frames) and all(frames):
                violations.append({"part": r["part"], "sig": "data-race:" + key.replace(" ", ""),
                                   "msg": "data race between " + key,
                                   "replay": {"log": r["log"], "part": r["part"], "seed": seed}})
                viol_counts["data-race"] = viol_counts.get("data-race", 0) + 1
            else:
                n = "race report outside this property's anchors (not judged): " + key
                if n not in race_notes and len(race_notes) < 20:
                    race_notes.append(n)
    notes += race_notes

    # floors
    for p in parts:
        pp = per_part.get(p["name"])
        floor = p.get("floor", {}).get(tier) if isinstance(p.get("floor"), dict) else p.get("floor")
        if floor and pp is not None and pp["nontrivial"] < floor * min(1.0, scale) and not inconclusive:
            inconclusive.append("part %s observed %d non-trivial cases, floor %d" % (p["name"], pp["nontrivial"], floor))

    # known findings
    known = [k for k in load_known() if k["property"] == pid]
    new_viol = []
    known_hit = {}
    for v in violations:
        hit = None
        for k in known:
            if k["sig"] == v["sig"]:
                hit = k
                break
        if hit:
            known_hit[hit["sig"]] = hit
        else:
            new_viol.append(v)

    wall = time.time() - t0
    level = spec["level"]
    coverage = {
        "evaluations": int(evaluations),
        "distinct_nontrivial": len(distinct) + distinct_counted,
        "nontrivial_evaluations": int(nontrivial),
        "rule": spec.get("rule", "") + (" | " + " | ".join(rules) if rules else ""),
        "samples": samples if samples else [],
        "observed": observed,
        "per_part": per_part,
        "exhaustive": bool(spec.get("exhaustive", False)) and len(exhaustive_parts) > 0,
        "exhaustive_parts": exhaustive_parts,
        "notes": notes,
        "violation_signatures": sorted(set(v["sig"] for v in violations)),
        "known_findings_matched": sorted(known_hit.keys()),
        "inconclusive": inconclusive,
        "verdict": "violated" if new_viol else ("inconclusive" if inconclusive else "held-on-observed"),
    }
    if level == "other":
        coverage["explanation"] = spec.get("explanation", "")
    evidence = {
        "property_id": pid,
        "tier": tier,
        "seed": int(seed),
        "level": level,
        "coverage": coverage,
        "assumptions": assumptions,
        "wall_s": round(wall, 2),
        "violations": len(new_viol),
    }
    with open(evpath, "w") as fh:
        json.dump(evidence, fh, indent=1, sort_keys=True)
        fh.write("\n")

    print("property=%s tier=%s seed=%s evaluations=%d distinct_nontrivial=%d wall=%.1fs" %
          (pid, tier, seed, evaluations, len(distinct) + distinct_counted, wall))
    for k in sorted(known_hit):
        print("KNOWN-FINDING: property=%s %s" % (pid, known_hit[k]["text"]))
    if new_viol:
        rdir = os.path.join(RPDIR, pid)
        os.makedirs(rdir, exist_ok=True)
        seen = set()
        for v in new_viol:
            if v["sig"] in seen:
                continue
            seen.add(v["sig"])
            h = hashlib.sha256(v["sig"].encode()).hexdigest()[:12]
            rp = os.path.join(rdir, "%s-seed%s-%s.json" % (tier, seed, h))
            with open(rp, "w") as fh:
                json.dump({"property": pid, "tier": tier, "seed": seed, "violation": v}, fh, indent=1)
            print("VIOLATION property=%s replay=%s" % (pid, rp))
            print("  sig=%s" % v["sig"])
            print("  %s" % (v.get("msg", "")[:600],))
        return 1
    if inconclusive:
        for inc in inconclusive[:10]:
            print("INCONCLUSIVE property=%s reason=%s" % (pid, inc[:1500]))
        return 2
    print("HELD property=%s (on what was observed; see %s)" % (pid, evpath))
    return 0


def crash_site(tail):
    """First repository frame (pkg.func) of a goroutine dump."""
    for m in re.finditer(r"^(github\.com/relab/hotstuff/[^\s(]+)\(", tail, re.M):
        fn = m.group(1)
        if "/verif/" in fn:
            continue
        return fn.replace("github.com/relab/hotstuff/", "")
    return "unknown"


# ----------------------------------------------------------------- commands

def cmd_setup():
    gen_overlay()
    seen = set()
    ok = True
    for pid, spec in sorted(plan.PROPERTIES.items()):
        for p in spec["parts"]:
            k = (p["target"], bool(p.get("race")))
            if k in seen:
                continue
            seen.add(k)
            t0 = time.time()
            b, err = build(k[0], k[1])
            print("build %-40s race=%-5s %s (%.1fs)" % (k[0][1], k[1], "ok" if b else "FAILED", time.time() - t0))
            if not b:
                ok = False
                print(err)
    return 0 if ok else 1


def cmd_replay(path):
    rec = json.load(open(path))
    pid = rec["property"]
    v = rec["violation"]
    print("replaying property=%s part=%s sig=%s" % (pid, v.get("part"), v["sig"]))
    print(json.dumps(v.get("replay"), indent=1)[:4000])
    os.environ.setdefault("VERIF_SEED", str(rec.get("seed", 1)))
    return run_property(pid, rec.get("tier", "quick"), int(rec.get("seed", 1)))


def main(argv):
    if not argv:
        print(__doc__ or "usage: check <Cnn> [quick|thorough]")
        return 2
    if argv[0] == "setup":
        return cmd_setup()
    if argv[0] == "replay":
        return cmd_replay(argv[1])
    tier = os.environ.get("VERIF_TIER", "quick")
    if len(argv) > 1:
        tier = argv[1]
    seed = int(os.environ.get("VERIF_SEED", "1") or "1")
    if argv[0] == "all":
        rc = 0
        for pid in sorted(plan.PROPERTIES):
            rc = max(rc, run_property(pid, tier, seed))
        return rc
    return run_property(argv[0], tier, seed)
