#!/bin/bash
# Usage: lib/mutant.sh <name> <patch-file|-e sed-expr file> <prop> [tier]
# Runs a check against a scratch worktree of /repo with a mutation applied; never touches /repo or /verif/evidence.
set -u
name=$1; shift
W=/tmp/vmut-$name
git -C /repo worktree remove --force $W >/dev/null 2>&1
rm -rf $W /tmp/vmut-$name-build
git -C /repo worktree add -q --detach $W HEAD || exit 3
if [ "$1" = "-e" ]; then
  sed -i "$2" "$W/$3" || exit 3
  (cd $W && git diff --stat | tail -1)
  shift 3
else
  git -C $W apply "$1" || { echo "patch failed"; git -C /repo worktree remove --force $W; exit 3; }
  shift
fi
prop=$1; tier=${2:-quick}
(cd $W && go build ./... ) || { echo "MUTANT DOES NOT BUILD"; git -C /repo worktree remove --force $W; exit 3; }
VERIF_REPO=$W VERIF_BUILD=/tmp/vmut-$name-build VERIF_EVIDENCE_DIR=/tmp/vmut-$name-build/evidence VERIF_REPLAY_DIR=/tmp/vmut-$name-build/replays /verif/check $prop $tier
rc=$?
git -C /repo worktree remove --force $W
rm -rf /tmp/vmut-$name-build
echo "mutant $name on $prop: rc=$rc"
exit $rc
