"""Per-property plan: which harness binaries and campaign parts decide each property."""

VRUN = ("main", "verif/cmd/vrun")


def part(name, target=VRUN, race=False, shards=None, floor=None, tiers=("quick", "thorough"), timeout=None,
         exclusive=False):
    return {
        "name": name, "target": target, "race": race,
        "shards": shards or {"quick": 1, "thorough": 1},
        "floor": floor, "tiers": tiers,
        "timeout": timeout or {"quick": 600, "thorough": 7200},
        "exclusive": exclusive,
    }


ENGINES = [
    {"name": "vrun", "path": "/verif/harness/cmd/vrun", "serves_properties": [],
     "kind_free_text": "Go binary built from /repo's working tree + overlay; runs one campaign part (pure campaigns in harness/vk, "
                       "virtual-time cluster simulator in harness/vsim, loopback gRPC cluster of real replicas in harness/vlive)"},
    {"name": "inpkg", "path": "/verif/harness/inpkg", "serves_properties": [],
     "kind_free_text": "in-package overlay tests (zz_verif_test.go) for unexported pieces named by a property"},
]

NOTES = ("All checks are runtime monitors over executions of the real code (technique family: runtime monitoring and sanitizers). "
         "Verdicts are three-valued: exit 0 held on what was observed, 1 violation, 2 inconclusive. See DESIGN.md.")

PROPERTIES = {
    "C20": {
        "level": "exploration",
        "level_text": "exhaustive enumeration of n=1..1e6 against the statement's inequalities on the real functions, plus observation that "
                      "real certificate verification switches exactly at the reference quorum for n=1..13, 3 schemes; the algebraic "
                      "for-all-n argument is outside this technique family",
        "level_note": "trusts the Go arithmetic and the harness's reference quorum (smallest q with 2q-n>=f+1, by search)",
        "technique": "runtime assertion over exhaustive input enumeration + threshold probing of real verifiers",
        "exhaustive": True,
        "rule": "C20: exhaustive arithmetic n=1..1e6 plus threshold use through real certificate verification n=1..13",
        "anchors": ["quorum.go", "core/replica.go", "security/cert/auth.go"],
        "assumptions": ["the for-all-n algebraic argument is not decided by runtime monitoring; claim is n <= 1e6"],
        "parts": [
            part("C20.arith", shards={"quick": 4, "thorough": 8}, floor=1000),
            part("C20.threshold", shards={"quick": 12, "thorough": 16}, floor=20),
        ],
    },
    "C19": {
        "level": "exploration",
        "level_text": "model-based monitoring of the real Bitfield / Multi signer lists against an ideal set: exhaustive for all byte strings of length <= 2 and all "
                      "Add sequences of length <= 4 over boundary ids, all subset pairs for n=4 signer lists, seeded random beyond",
        "level_note": "ideal set = Go map; id 0 is outside the stated domain and not exercised here",
        "technique": "reference-model monitor (ideal set) over exhaustive-small and random operation sequences",
        "exhaustive": True,
        "rule": "C19: participant sets vs ideal set",
        "anchors": ["security/crypto/bitfield.go", "security/crypto/multisignature.go", "security/crypto/bls12.go",
                    "security/crypto/ecdsa.go", "security/crypto/eddsa.go"],
        "parts": [
            part("C19.bitfield", shards={"quick": 4, "thorough": 16}, floor=500),
            part("C19.frombytes", shards={"quick": 2, "thorough": 8}, floor=500),
            part("C19.multi", shards={"quick": 6, "thorough": 6}, floor=100),
        ],
    },
    "C17": {
        "level": "exploration",
        "level_text": "every replica's real tree.Tree for the same assignment is assembled into one graph and checked for single-rooted consistency from every vantage "
                      "point; all permutations for n <= 6, seeded random permutations for n <= 40, bf 2..6",
        "level_note": "the reference shape is assembled from the replicas' own Parent/Children reports, not recomputed from positions",
        "technique": "structural-invariant monitor over enumerated configurations",
        "exhaustive": True,
        "rule": "C17: tree consistency",
        "anchors": ["internal/tree/tree.go", "internal/tree/shuffle.go", "protocol/leaderrotation/treeleader.go", "protocol/comm/kauri.go"],
        "parts": [part("C17.tree", shards={"quick": 8, "thorough": 16}, floor=1000),
                  part("C17.kauri", shards={"quick": 8, "thorough": 16}, floor=60)],
    },
    "C16": {
        "level": "exploration",
        "level_text": "stateless schemes: exhaustive n=1..64 x views 0..4096 and windows at 2^32, 2^63, 2^64-1 on two independently configured replicas; "
                      "history-based schemes: two instances fed identical generated commit/query histories must agree, active carousel answers checked against the "
                      "statement's eligibility rule",
        "level_note": "QCs in generated chains carry arbitrary signer lists >= q (leader rotation never verifies them)",
        "technique": "differential monitor (two replicas, same history) + invariant on answers",
        "exhaustive": True,
        "rule": "C16: leader agreement",
        "anchors": ["protocol/leaderrotation/", "server/server.go"],
        "parts": [
            part("C16.stateless", shards={"quick": 8, "thorough": 16}, floor=100),
            part("C16.history", shards={"quick": 8, "thorough": 16}, floor=200),
            part("C16.wire", target=("test", "server"), shards={"quick": 9, "thorough": 9}, floor=500),
        ],
    },
    "C04": {
        "level": "exploration",
        "level_text": "differential monitoring of the three real rulesets (real blocks in a real blockchain) against reference rules written from the papers, exhaustive over all "
                      "forests up to a size bound and all presentation orders, random forests beyond; every vote, lock and commit decision compared",
        "level_note": "reference = harness implementation of HotStuff Alg.4/5 (with the implementation's consecutive-view requirement), Fast-HotStuff, Jehl's simple HotStuff; "
                      "lock read through reflect (falls back to behavioural comparison if the field disappears)",
        "technique": "differential monitor against executable reference rules over exhaustive-small + random forests",
        "exhaustive": True,
        "rule": "C04: rules differential",
        "anchors": ["protocol/rules/", "protocol/consensus/ruleset.go", "security/blockchain/blockchain.go"],
        "parts": [
            part("C04.exhaustive", shards={"quick": 16, "thorough": 16}, floor=2000),
            part("C04.random", shards={"quick": 8, "thorough": 16}, floor=500),
        ],
    },
    "C13": {
        "level": "exploration",
        "level_text": "model-based monitoring of the real Blockchain (store/get/fetch/ancestry) against a reference forest, exhaustive for <=3 blocks and random beyond, and of the real "
                      "Committer+PruneToHeight under a scripted commit rule with CommitEvent/AbortEvent observed on the event loop",
        "level_note": "the stub sender serves withheld blocks honestly (the hash check on fetched blocks lives in network.qspec and is exercised under C12); commit targets are chosen by the scenario",
        "technique": "reference-model monitor over operation sequences + event-history check (abort vs commit) + race detector over a live loopback cluster (anchor files)",
        "exhaustive": True,
        "rule": "C13: block store model",
        "anchors": ["security/blockchain/blockchain.go", "protocol/consensus/committer.go"],
        "parts": [
            part("C13.store", shards={"quick": 12, "thorough": 16}, floor=500),
            part("C13.prune", shards={"quick": 8, "thorough": 16}, floor=500),
            part("C13.sim", shards={"quick": 16, "thorough": 16}, floor=50, timeout={"quick": 900, "thorough": 14400}),
            part("C13.live", race=True, shards={"quick": 2, "thorough": 16}, floor=1, timeout={"quick": 900, "thorough": 7200}),
        ],
    },
    "C12": {
        "level": "exploration",
        "level_text": "round-trip monitor: every generated protocol object goes through ToProto, proto.Marshal, proto.Unmarshal, FromProto and is compared on hash, bytes-to-sign, "
                      "participants and the real verification verdict at another replica; the block-fetch quorum function is exercised in-package with right/wrong/mutated replies",
        "level_note": "TimeoutMsg.ID and ProposeMsg.ID are not on the wire (the server sets them from the transport identity); they are restored before comparison",
        "technique": "round-trip differential monitor over generated objects; in-package monitor of the fetch quorum function",
        "rule": "C12: wire round trip",
        "anchors": ["internal/proto/hotstuffpb/convert.go", "block.go", "types.go", "network/sender.go"],
        "parts": [
            part("C12.roundtrip", shards={"quick": 12, "thorough": 16}, floor=500),
            part("C12.fetch", target=("test", "network"), shards={"quick": 4, "thorough": 8}, floor=500),
            part("C12.live", race=True, shards={"quick": 4, "thorough": 16}, floor=1, timeout={"quick": 900, "thorough": 7200}),
        ],
    },
    "C02": {
        "level": "fault_enumeration",
        "level_text": "enumeration of every structural certificate-mutation class x scheme x cache size x n=1..13 against the real Verify* functions, judged by a ground-truth oracle built "
                      "from a log of real signing operations (never by security/cert); completeness checked for honestly assembled certificates at every replica",
        "level_note": "assumes cryptographic hardness (structural forgeries, plus the BLS rogue-key registration adversary: chosen public key and chosen proof-of-possession); bootstrap convention for signature-free certificates; a panic during verification is a C10 event, not a verdict",
        "technique": "fault enumeration over certificate mutations and a BLS key-registration (rogue key / chosen proof-of-possession) adversary, judged by a sign-log ground-truth oracle",
        "rule": "C02: certificate forgery campaign",
        "anchors": ["security/cert/auth.go", "security/crypto/", "security/cert/cache.go"],
        "parts": [
            part("C02.certs", shards={"quick": 16, "thorough": 16}, floor=1000),
            part("C02.roguekey", shards={"quick": 10, "thorough": 16}, floor=100),
        ],
    },
    "C11": {
        "level": "exploration",
        "level_text": "differential monitor: a cached and an uncached authority over the same keys execute identical hostile operation sequences and must return the same verdict on every "
                      "operation; a parallel variant under the race detector checks one cached authority driven from 8 goroutines against precomputed uncached verdicts",
        "level_note": "the uncached authority is the reference, as the property defines; sequences are seeded-random over a fixed menu of replay/alteration classes",
        "technique": "differential monitor (cached vs uncached) + race detector on the parallel variant",
        "rule": "C11: cache differential",
        "anchors": ["security/cert/cache.go", "security/cert/auth.go", "security/crypto/"],
        "parts": [
            part("C11.diff", shards={"quick": 12, "thorough": 16}, floor=300),
            part("C11.parallel", race=True, shards={"quick": 4, "thorough": 8}, floor=50),
        ],
    },
    "C14": {
        "level": "exploration",
        "level_text": "in-package model check of the queue (exhaustive up to a length bound for capacities 1..4), reference-model monitor of the event loop over random API programs, and "
                      "concurrent producers under the race detector with exactly-once / order / drop-report checks and porcupine linearizability on short histories",
        "level_note": "order among handlers of the same class is not judged; handlers (un)registered during the dispatch of an event are not asserted for that event",
        "technique": "reference-model monitor + exhaustive small-scope queue check + race detector (directed concurrent harness and live loopback cluster) + porcupine history checking",
        "exhaustive": True,
        "rule": "C14: event loop",
        "parts": [
            part("C14.queue", target=("test", "core/eventloop"), shards={"quick": 8, "thorough": 16}, floor=1000),
            part("C14.loop", target=("test", "core/eventloop"), shards={"quick": 8, "thorough": 16}, floor=1000),
            part("C14.reactive", target=("test", "core/eventloop"), shards={"quick": 8, "thorough": 16}, floor=1000),
            part("C14.concurrent", target=("test", "core/eventloop"), race=True, shards={"quick": 8, "thorough": 16}, floor=50),
            part("C14.live", race=True, shards={"quick": 2, "thorough": 16}, floor=1, timeout={"quick": 900, "thorough": 7200}),
        ],
    },
    "C15": {
        "level": "exploration",
        "level_text": "reference-model monitor of the real CommandCache: exhaustive operation sequences over a small alphabet for batch sizes 1..3, random longer sequences, and a concurrent "
                      "producers/marker/consumers workload under the race detector with exactly-once, order, staleness, conservation and lost-wake-up checks at quiescence",
        "level_note": "a Get that must block is observed through a 150us deadline (only the context error is a legal outcome); 'blocked although a batch exists' is decided logically and confirmed by a 10s wait",
        "technique": "reference-model monitor over exhaustive-small and random sequences + race detector (directed concurrent harness and live loopback cluster) + history checks at quiescence",
        "exhaustive": True,
        "rule": "C15: command cache",
        "parts": [
            part("C15.seq", shards={"quick": 16, "thorough": 16}, floor=1000),
            part("C15.concurrent", race=True, shards={"quick": 8, "thorough": 16}, floor=20),
            part("C15.live", race=True, shards={"quick": 2, "thorough": 16}, floor=1, timeout={"quick": 900, "thorough": 7200}),
        ],
    },
    "C18": {
        "level": "exploration",
        "level_text": "in-package exhaustive enumeration of the generator's output for every setting within the stated bounds (count, distinctness, determinism, shuffle, well-formedness, JSON "
                      "round trip) and of checkCommits on all small synthetic commit logs against a reference verdict; executor verdicts re-derived from returned logs",
        "level_note": "what NextScenario does after the announced count is reached is outside the statement (recorded as a note only)",
        "technique": "exhaustive output enumeration with invariant checks + reference-verdict differential",
        "exhaustive": True,
        "rule": "C18: twins tester",
        "parts": [
            part("C18.generator", target=("test", "twins"), shards={"quick": 16, "thorough": 16}, floor=20),
            part("C18.verdict", target=("test", "twins"), shards={"quick": 8, "thorough": 16}, floor=1000),
            part("C18.execute", target=("test", "twins"), shards={"quick": 8, "thorough": 16}, floor=10),
        ],
    },
    "C01": {
        "level": "exploration",
        "level_text": "commit monitor over executions of real replica stacks in a virtual-time simulator with hostile schedules, partitions, twins and scripted Byzantine actors (<= f): "
                      "every CommitEvent is checked online for chain linkage and all honest ledgers pairwise for the prefix relation after every step",
        "level_note": "simulated network applies the server's transport-identity rule; vote verification is synchronous; <= f faulty replicas; cryptographic hardness assumed",
        "technique": "runtime monitor (commit-history oracle) over randomized and scripted hostile executions of the real stacks in a virtual-time simulator, and over a live loopback gRPC cluster under the race detector",
        "rule": "C01: ledger agreement",
        "parts": [part("C01.sim", shards={"quick": 16, "thorough": 16}, floor=100, timeout={"quick": 900, "thorough": 14400}),
                  part("C01.live", race=True, shards={"quick": 4, "thorough": 16}, floor=1, timeout={"quick": 900, "thorough": 7200})],
    },
    "C03": {
        "level": "exploration",
        "level_text": "vote monitor: offline pass over the ground-truth sign log of every honest key after every step of the same hostile executions",
        "level_note": "leader of a view = what the node's own rotation answered; scripted/fixed/round-robin rotations only",
        "technique": "runtime monitor (sign-log history oracle) over randomized and scripted hostile executions of the real stacks, and over the sign log of a live loopback gRPC cluster under the race detector",
        "rule": "C03: voting discipline",
        "parts": [part("C03.sim", shards={"quick": 16, "thorough": 16}, floor=100, timeout={"quick": 900, "thorough": 14400}),
                  part("C03.live", race=True, shards={"quick": 4, "thorough": 16}, floor=1, timeout={"quick": 900, "thorough": 7200})],
    },
    "C07": {
        "level": "exploration",
        "level_text": "pacemaker monitor polled after every handled message: monotonicity, one ViewChangeEvent per view, and necessity of ground-truth quorum evidence for every view left",
        "level_note": "evidence oracle is a necessary condition computed from the sign log (cannot false-alarm); certificate validity judged by the ground-truth oracle",
        "technique": "runtime monitor (state polling + sign-log evidence oracle) over randomized hostile executions in a virtual-time simulator, and monotonicity monitors on a live loopback gRPC cluster under the race detector",
        "rule": "C07: pacemaker",
        "parts": [part("C07.sim", shards={"quick": 16, "thorough": 16}, floor=100, timeout={"quick": 900, "thorough": 14400}),
                  part("C07.live", race=True, shards={"quick": 4, "thorough": 16}, floor=1, timeout={"quick": 900, "thorough": 7200})],
    },
    "C06": {
        "level": "exploration",
        "level_text": "execution/client monitor over hostile executions in which every command enters through a real ClientIO.ExecCommand call: outcome history per (replica, command), "
                      "ExecuteEvent/AbortEvent dispatch order, committed chain, command count and application digest are cross-checked per replica and between replicas",
        "level_note": "client goroutines make these executions non-deterministic in command placement; a logical barrier on ClientIO's waiter table precedes every look at the outcome list",
        "technique": "runtime monitor (client-boundary outcome history + event history) over randomized hostile executions in a virtual-time simulator and over a live loopback gRPC cluster with real clients under the race detector",
        "rule": "C06: exactly-once execution",
        "parts": [part("C06.sim", shards={"quick": 16, "thorough": 16}, floor=50, timeout={"quick": 900, "thorough": 14400}),
                  part("C06.live", race=True, shards={"quick": 4, "thorough": 16}, floor=1, timeout={"quick": 900, "thorough": 7200})],
    },
    "C05": {
        "level": "exploration",
        "level_text": "bounded-progress monitor: hostile prefixes followed by a synchronous suffix among a live honest quorum in the virtual-time simulator; progress is measured in logical "
                      "rounds and views (fixed bounds), plus the fault-free lock-step claims checked view by view",
        "level_note": "liveness restated as bounded progress in logical rounds; wall clock only in a watchdog; unbounded eventuality, real-time timers and dynamic view duration are out of reach",
        "technique": "runtime monitor (progress counter over commit/view-change events) on prefix+synchronous-suffix executions",
        "rule": "C05: bounded progress",
        "parts": [
            part("C05.progress", shards={"quick": 16, "thorough": 16}, floor=100, timeout={"quick": 900, "thorough": 14400}),
            part("C05.faultfree", shards={"quick": 16, "thorough": 16}, floor=20),
        ],
    },
    "C08": {
        "level": "exploration",
        "level_text": "in-package model check of the timeout collector (exhaustive small sequences, random longer ones) and a synchronizer monitor on one real replica fed hostile timeout "
                      "interleavings by puppets whose keys the harness holds; emitted certificates are verified at another replica's real authority and by the ground-truth oracle",
        "level_note": "timeouts in these runs carry only the genesis QC so that every view change is timeout-driven; a message counts only if it is correctly signed by its sender",
        "technique": "reference-model monitor (per-view sender sets) + ground-truth certificate oracle on a single real replica under hostile input",
        "exhaustive": True,
        "rule": "C08: timeout certificates",
        "parts": [
            part("C08.collector", target=("test", "protocol/synchronizer"), shards={"quick": 16, "thorough": 16}, floor=1000),
            part("C08.sync", shards={"quick": 16, "thorough": 16}, floor=200),
        ],
    },
    "C09": {
        "level": "exploration",
        "level_text": "vote-collector monitor on a real replica that is the next leader: genuine votes in varying orders, before/after the block, mixed with hostile votes; two-sided oracle from the "
                      "ground-truth sign log; asynchronous variant with goroutine-per-vote verification under the race detector judged at quiescence; Kauri tree collector with recorded contributions",
        "level_note": "the 'cannot be prevented' clause is asserted for the all-to-one collector only, as the property states; <= f restriction lifted (single-replica property)",
        "technique": "runtime monitor (two-sided sign-log oracle) on a single real replica under hostile vote streams; race detector on the asynchronous variants (per-vote goroutines; held verifications released across consecutive blocks)",
        "rule": "C09: vote collection",
        "parts": [
            part("C09.clique", shards={"quick": 16, "thorough": 16}, floor=200),
            part("C09.kauri", shards={"quick": 16, "thorough": 16}, floor=200),
            part("C09.async", race=True, shards={"quick": 8, "thorough": 16}, floor=30, timeout={"quick": 900, "thorough": 7200}),
            part("C09.live", race=True, shards={"quick": 4, "thorough": 16}, floor=1, timeout={"quick": 900, "thorough": 7200}),
            part("C09.pipeline", race=True, shards={"quick": 8, "thorough": 16}, floor=30, timeout={"quick": 900, "thorough": 7200}),
        ],
    },
    "C10": {
        "level": "fault_enumeration",
        "level_text": "structure-aware enumeration of wire messages (cross product of field states) through the real gorums service handlers, conversion code, event loop and protocol handlers "
                      "of a fully wired replica in several states; oracles: no panic (recovered, attributed to the innermost repository frame) and unchanged protocol state for input in which nothing verifies",
        "level_note": "handlers are called in-process with a peer context (no TLS identity path); verification is synchronous so a panic is caught on the calling goroutine",
        "technique": "fault enumeration over structured wire messages plus byte-level mutation of the marshalled corpus, with panic, state-invariance, monotonicity and held-certificate monitors",
        "rule": "C10: hostile wire input",
        "parts": [part("C10.wire", target=("test", "server"), shards={"quick": 16, "thorough": 16}, floor=2000),
                  part("C10.fuzz", target=("test", "server"), shards={"quick": 16, "thorough": 16}, floor=1000)],
    },
}
