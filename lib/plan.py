"""Per-property plan: which harness binaries and campaign parts decide each property."""

VRUN = ("main", "verif/cmd/vrun")


def part(name, target=VRUN, race=False, shards=None, floor=None, tiers=("quick", "thorough"), timeout=None,
         exclusive=False):
    return {
        "name": name, "target": target, "race": race,
        "shards": shards or {"quick": 1, "thorough": 1},
        "floor": floor, "tiers": tiers,
        "timeout": timeout or {"quick": 600, "thorough": 7200},
        "exclusive": exclusive,
    }


ENGINES = [
    {"name": "vrun", "path": "/verif/harness/cmd/vrun", "serves_properties": [],
     "kind_free_text": "Go binary built from /repo's working tree + overlay; runs one campaign part (pure campaigns in harness/vk, "
                       "virtual-time cluster simulator in harness/vsim, loopback gRPC cluster in harness/vnet)"},
    {"name": "inpkg", "path": "/verif/harness/inpkg", "serves_properties": [],
     "kind_free_text": "in-package overlay tests (zz_verif_test.go) for unexported pieces named by a property"},
]

NOTES = ("All checks are runtime monitors over executions of the real code (technique family: runtime monitoring and sanitizers). "
         "Verdicts are three-valued: exit 0 held on what was observed, 1 violation, 2 inconclusive. See DESIGN.md.")

PROPERTIES = {
    "C20": {
        "level": "exploration",
        "level_text": "exhaustive enumeration of n=1..1e6 against the statement's inequalities on the real functions, plus observation that "
                      "real certificate verification switches exactly at the reference quorum for n=1..13, 3 schemes; the algebraic "
                      "for-all-n argument is outside this technique family",
        "level_note": "trusts the Go arithmetic and the harness's reference quorum (smallest q with 2q-n>=f+1, by search)",
        "technique": "runtime assertion over exhaustive input enumeration + threshold probing of real verifiers",
        "exhaustive": True,
        "rule": "C20: exhaustive arithmetic n=1..1e6 plus threshold use through real certificate verification n=1..13",
        "anchors": ["quorum.go", "core/replica.go", "security/cert/auth.go"],
        "assumptions": ["the for-all-n algebraic argument is not decided by runtime monitoring; claim is n <= 1e6"],
        "parts": [
            part("C20.arith", shards={"quick": 4, "thorough": 8}, floor=1000),
            part("C20.threshold", shards={"quick": 12, "thorough": 16}, floor=20),
        ],
    },
}
