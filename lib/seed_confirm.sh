#!/bin/bash
# Usage: lib/seed_confirm.sh <seed-name> <property> <dir-with-patch-and-demo> <demo-file> <demo-dest-relpath> [extra properties...]
# Confirms an independently produced breaking change in a scratch worktree (never in /repo):
#  demo passes without the patch, fails with it, the repository suite passes with it; then runs our checks on it.
set -u
name=$1; prop=$2; src=$3; demo=$4; dest=$5; shift 5
W=/tmp/seedchk-$name
export GOFLAGS=-mod=mod GOPROXY=off
git -C /repo worktree remove --force $W >/dev/null 2>&1; rm -rf $W
git -C /repo worktree add -q --detach $W HEAD || exit 3
pkg=./$(dirname $dest)/
cp $src/$demo $W/$dest
(cd $W && go test -vet=off -count=1 $pkg >/tmp/seedchk-$name.nopatch.log 2>&1); nopatch=$?
git -C $W apply $src/patch.diff || { echo "PATCH DOES NOT APPLY"; exit 3; }
(cd $W && go build ./... ) || { echo "DOES NOT BUILD"; exit 3; }
(cd $W && go test -vet=off -count=1 $pkg >/tmp/seedchk-$name.patch.log 2>&1); withpatch=$?
rm $W/$dest
(cd $W && VERIF_REPO=$W python3 /verif/lib/baseline_check.py >/tmp/seedchk-$name.suite.log 2>&1); suite=$?
echo "seed $name: demo-without-patch rc=$nopatch (want 0), demo-with-patch rc=$withpatch (want !=0), suite-with-patch rc=$suite (want 0): $(tail -1 /tmp/seedchk-$name.suite.log | head -c 200)"
for p in $prop "$@"; do
  VERIF_REPO=$W VERIF_BUILD=/tmp/seedchk-$name-build VERIF_EVIDENCE_DIR=/tmp/seedchk-$name-build/evidence VERIF_REPLAY_DIR=/tmp/seedchk-$name-build/replays /verif/check $p quick > /tmp/seedchk-$name.check-$p.log 2>&1
  rc=$?
  echo "  check $p on seeded tree: rc=$rc $(grep -m3 'sig=' /tmp/seedchk-$name.check-$p.log | tr '\n' ' ' | cut -c1-300)"
done
git -C /repo worktree remove --force $W; rm -rf /tmp/seedchk-$name-build
