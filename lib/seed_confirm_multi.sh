#!/bin/bash
# like seed_confirm.sh but with several demo files: name prop src pkgdir "files..." [extra props]
name=$1; prop=$2; src=$3; pkgdir=$4; files=$5; shift 5
W=/tmp/seedchk-$name
export GOFLAGS=-mod=mod GOPROXY=off
git -C /repo worktree remove --force $W >/dev/null 2>&1; rm -rf $W
git -C /repo worktree add -q --detach $W HEAD || exit 3
for f in $files; do cp $src/$f $W/$pkgdir/$f; done
(cd $W && go test -vet=off -count=1 ./$pkgdir/ >/tmp/seedchk-$name.nopatch.log 2>&1); nopatch=$?
git -C $W apply $src/patch.diff || { echo "PATCH DOES NOT APPLY"; exit 3; }
(cd $W && go build ./... ) || { echo "DOES NOT BUILD"; exit 3; }
(cd $W && go test -vet=off -count=1 ./$pkgdir/ >/tmp/seedchk-$name.patch.log 2>&1); withpatch=$?
for f in $files; do rm $W/$pkgdir/$f; done
(cd $W && VERIF_REPO=$W python3 /verif/lib/baseline_check.py >/tmp/seedchk-$name.suite.log 2>&1); suite=$?
echo "seed $name: demo-without-patch rc=$nopatch (want 0), demo-with-patch rc=$withpatch (want !=0), suite-with-patch rc=$suite (want 0): $(tail -1 /tmp/seedchk-$name.suite.log | head -c 200)"
for p in $prop "$@"; do
  VERIF_REPO=$W VERIF_BUILD=/tmp/seedchk-$name-build VERIF_EVIDENCE_DIR=/tmp/seedchk-$name-build/evidence VERIF_REPLAY_DIR=/tmp/seedchk-$name-build/replays /verif/check $p quick > /tmp/seedchk-$name.check-$p.log 2>&1
  rc=$?
  echo "  check $p on seeded tree: rc=$rc $(grep -m3 'sig=' /tmp/seedchk-$name.check-$p.log | tr '\n' ' ' | cut -c1-300)"
done
git -C /repo worktree remove --force $W; rm -rf /tmp/seedchk-$name-build
