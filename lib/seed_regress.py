#!/usr/bin/env python3
"""Re-runs the quick checks against every stored seeded breakage (scratch worktrees, never /repo itself) and reports
whether each seed is still caught by the checks its meta.json names. Usage: lib/seed_regress.py [seed-name-prefix ...]"""
import json, glob, os, subprocess, sys
root = os.path.dirname(os.path.dirname(os.path.abspath(__file__)))
want = sys.argv[1:]
rows = []
for d in sorted(glob.glob(os.path.join(root, "seeded", "*"))):
    name = os.path.basename(d)
    if want and not any(name.startswith(w) for w in want):
        continue
    meta = json.load(open(os.path.join(d, "meta.json")))
    for prop, how in meta.get("caught_by", {}).items():
        low = how.lower()
        if low.startswith("silent") or low.startswith("not ") or "not caught" in low[:20]:
            continue
        short = name.split("-")[0].lower() + prop.lower()
        p = subprocess.run([os.path.join(root, "lib", "mutant.sh"), "rg" + short, os.path.join(d, "patch.diff"), prop, "quick"],
                           capture_output=True, text=True)
        out = p.stdout + p.stderr
        if "patch failed" in out:
            verdict = "patch does not apply to the current tree (base %s)" % meta.get("base_commit")
        elif p.returncode == 1 and "VIOLATION" in out:
            sigs = sorted({l.strip()[4:] for l in out.splitlines() if l.strip().startswith("sig=")})
            verdict = "caught: " + "; ".join(sigs[:3])
        else:
            verdict = "MISSED (rc=%d)" % p.returncode
        rows.append((name, prop, verdict))
        print("%-45s %-4s %s" % (name, prop, verdict), flush=True)
missed = [r for r in rows if r[2].startswith("MISSED")]
print("seeds x checks: %d, missed: %d" % (len(rows), len(missed)))
sys.exit(1 if missed else 0)
