#!/usr/bin/env python3
"""Prepares a seeding round: scratch worktrees /tmp/seedwt<R>-<id>, output dirs /tmp/seed<R>/<id>, prompts /tmp/seed<R>/prompt-<id>.txt.
Usage: lib/seed_round.py <round-number> <property ids...>. The prompts carry only the property text, its anchors, and a list of
changes already delivered for that property (so that new ones differ); nothing from /verif."""
import json, glob, os, subprocess, sys
R = sys.argv[1]
rnd = sys.argv[2:]
root = os.path.dirname(os.path.dirname(os.path.abspath(__file__)))
props = {json.loads(l)['id']: json.loads(l) for l in open(os.path.join(root, 'properties.jsonl'))}
seeds = {}
for d in glob.glob(os.path.join(root, 'seeded/*/meta.json')):
    m = json.load(open(d))
    for p in m.get('breaks_property', []):
        seeds.setdefault(p, []).append(m['change'])
TASK = open(os.path.join(root, 'lib/seed_task.txt')).read()
os.makedirs(f'/tmp/seed{R}', exist_ok=True)
for pid in rnd:
    p = props[pid]
    anchors = ', '.join(p['anchors']['files'])
    out = f'/tmp/seed{R}/{pid}'
    os.makedirs(out, exist_ok=True)
    wt = f'/tmp/seedwt{R}-{pid}'
    subprocess.run(['git', '-C', '/repo', 'worktree', 'remove', '--force', wt], capture_output=True)
    subprocess.run(['git', '-C', '/repo', 'worktree', 'add', '-q', '--detach', wt, 'HEAD'], check=True)
    earlier = '; '.join(f'({i+1}) ' + c for i, c in enumerate(seeds.get(pid, [])))
    txt = f'''You are working in an OFFLINE sandbox on a scratch git worktree of the Go repository relab/hotstuff (a modular HotStuff-family BFT consensus framework) located at {wt}. Work ONLY inside {wt} and the output directory {out}. Do NOT read or touch /verif, /repo or any other /tmp/seed* directory. Do NOT use `git stash` (the stash is shared between worktrees; use `git diff > file` and `git apply -R` instead) and do NOT use `pkill`/`killall` (other jobs run tests with the same names on this machine).

Environment: in every shell call first run `export GOFLAGS=-mod=mod GOPROXY=off`. Build: `cd {wt} && go build ./...`. Full existing test suite: `cd {wt} && go test -vet=off -count=1 -timeout 25m ./...` (about 2-3 minutes when the machine is idle, longer now because other jobs are running; the package internal/orchestration alone takes ~95 s; core/eventloop TestTicker and protocol/comm TestDisseminate* are wall-clock sensitive and may fail spuriously under load - re-run them alone before concluding anything). No network, nothing can be downloaded.

The property (read it carefully):

{pid} - {p['statement']} Quantified over: {p['quantifier']['text']}

Code it is anchored in: {anchors}

Note: earlier contributors already delivered these changes for this property: {earlier}. Do NOT use any of them or a variation - in particular NOT a weakened duplicate-signer check in checkDistinctSigners, which has been delivered five times. Your change must be of a DIFFERENT kind, in a different function if possible, and should be SUBTLE: prefer one that needs a multi-step sequence, a specific interleaving, a boundary value or an unusual-but-legal input or configuration to show. Look at the less obvious places the property depends on: helpers, option handling, conversions, bookkeeping that other code relies on, code paths only taken by one ruleset / signature scheme / leader rotation / the Kauri tree / the aggregate timeout rule, behaviour at size boundaries (0, 1, capacity, byte boundaries, large values) and under concurrency.

''' + TASK.replace('@OUT@', out)
    open(f'/tmp/seed{R}/prompt-{pid}.txt', 'w').write(txt)
print('prepared', len(rnd), 'prompts in', f'/tmp/seed{R}')
