#!/usr/bin/env python3
# Usage: lib/seed_save.py <seed-name> <srcdir> <json-meta-fragment>
# Copies patch.diff, notes.md and the demonstration files (*.go -> *.go.txt) of a confirmed seed to /verif/seeded/<name>/ and writes meta.json.
import sys, os, json, shutil, subprocess
name, src, frag = sys.argv[1], sys.argv[2], json.loads(sys.argv[3])
dst = os.path.join('/verif/seeded', name)
os.makedirs(dst, exist_ok=True)
for f in ('patch.diff', 'notes.md'):
    shutil.copy(os.path.join(src, f), os.path.join(dst, f))
demos = []
for f, place in frag.pop('demos').items():
    shutil.copy(os.path.join(src, f), os.path.join(dst, f + '.txt'))
    demos.append({'file': f + '.txt', 'place_at': place})
base = subprocess.check_output(['git', '-C', '/repo', 'rev-parse', '--short', 'HEAD']).decode().strip()
meta = {'seed': name, 'produced_by': 'independent sub-agent given only the property text and a scratch worktree'}
meta.update(frag)
meta.update({'demonstration': demos,
  'confirmed': 'lib/seed_confirm.sh in a scratch worktree: demonstration passes without the patch, fails with it; repository suite (638 tests) passes with it',
  'checks_run': './check <property> quick with VERIF_REPO pointing at the patched scratch worktree',
  'base_commit': base})
json.dump(meta, open(os.path.join(dst, 'meta.json'), 'w'), indent=1)
print('saved', dst)
