#!/usr/bin/env python3
# Prints the markdown table of independently seeded breakages (DESIGN.md section 5) from seeded/*/meta.json.
import json, glob, os
print("| seed | change | needs | caught by |")
print("|---|---|---|---|")
for d in sorted(glob.glob(os.path.join(os.path.dirname(__file__), "..", "seeded", "*"))):
    mp = os.path.join(d, "meta.json")
    if not os.path.exists(mp):
        continue
    m = json.load(open(mp))
    cb = "; ".join(f"{k}: {v}" for k, v in m.get("caught_by", {}).items())
    print(f"| {m['seed']} | {m.get('change','')} | {m.get('needs_to_manifest','')} | {cb} |".replace("\n", " "))
