#!/bin/bash
# Usage: lib/sweep.sh "<seeds>" [props...]   e.g. lib/sweep.sh "2 3 4 5 1"
# Runs the quick tier of every (or the given) check at each seed; prints one line per run and a summary of anything not HELD.
# The last seed listed is the one whose evidence files remain in /verif/evidence.
seeds=${1:-"2 3 1"}; shift
props=${@:-C01 C02 C03 C04 C05 C06 C07 C08 C09 C10 C11 C12 C13 C14 C15 C16 C17 C18 C19 C20}
bad=0
for s in $seeds; do
  for p in $props; do
    out=$(VERIF_SEED=$s /verif/check $p quick 2>&1); rc=$?
    line=$(echo "$out" | grep -E "^property=" | tail -1)
    echo "seed=$s $p rc=$rc $line"
    if [ $rc -ne 0 ]; then bad=$((bad+1)); echo "$out" | grep -E -A2 "VIOLATION|INCONCLUSIVE" | head -12; fi
  done
done
echo "runs not HELD: $bad"
exit $bad
