#!/usr/bin/env python3
"""Validate MANIFEST.json and evidence files against the schemas (uses the tooling venv's jsonschema)."""
import json, glob, sys
import jsonschema
ok = True
try:
    jsonschema.validate(json.load(open('/verif/MANIFEST.json')), json.load(open('/root/.vp/MANIFEST.schema.json')))
    print("MANIFEST ok")
except Exception as e:
    ok = False; print("MANIFEST INVALID", e)
es = json.load(open('/root/.vp/EVIDENCE.schema.json'))
for f in sorted(glob.glob('/verif/evidence/*.json')):
    try:
        jsonschema.validate(json.load(open(f)), es)
    except Exception as e:
        ok = False; print(f, "INVALID", str(e)[:300])
print("evidence ok" if ok else "FAILED")
sys.exit(0 if ok else 1)
